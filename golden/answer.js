// Run once at authoring time (node is NOT needed at check time):
//   node answer.js ranges.q.jsonl > ranges.jsonl ; node answer.js pairs.q.jsonl > pairs.jsonl
// Uses the node-semver 7.6.2 bundled with this image's npm.
const semver = require('/root/.nvm/versions/node/v18.20.8/lib/node_modules/npm/node_modules/semver');
const fs = require('fs');
const opt = { loose: true };
if (semver.SEMVER_SPEC_VERSION !== '2.0.0') throw new Error('unexpected semver');
const lines = fs.readFileSync(process.argv[2], 'utf8').split('\n').filter(Boolean);
for (const line of lines) {
  const q = JSON.parse(line);
  if (q.text !== undefined) {
    let range;
    try { range = new semver.Range(q.text, opt); } catch (e) { q.node = 'INVALID'; console.log(JSON.stringify(q)); continue; }
    let out = '';
    for (const v of q.probes) { try { out += range.test(new semver.SemVer(v, opt)) ? '1' : '0'; } catch (e) { out += 'E'; } }
    q.node = out; q.node_range = range.range;
    console.log(JSON.stringify(q));
  } else {
    try { q.cmp = semver.compare(q.a, q.b, opt); } catch (e) { q.cmp = null; }
    try { q.diff = semver.diff(q.a, q.b); q.diff_err = false; } catch (e) { q.diff = null; q.diff_err = true; }
    console.log(JSON.stringify(q));
  }
}
