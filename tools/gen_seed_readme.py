#!/usr/bin/env python3
"""Authoring helper: print the README table rows of one round from seeded/<id>-rN/meta.json.
usage: tools/gen_seed_readme.py <round> [notes.json]"""
import json, sys, glob, os
rnd = sys.argv[1]
notes = json.load(open(sys.argv[2])) if len(sys.argv) > 2 else {}
print("| seed | needs | checks that fire (first signature) | note |")
print("|---|---|---|---|")
for d in sorted(glob.glob(f'/verif/seeded/C*-r{rnd}')):
    sid = os.path.basename(d)
    m = json.load(open(d + '/meta.json'))
    fire = m.get('checks_that_fire') or {}
    cells = ', '.join(f"{c} ({(s[0] if s else '…')})" for c, s in sorted(fire.items()))
    note = notes.get(sid, '')
    if m.get('target_check_first_run') == 'missed' and not note:
        note = 'missed by the target check at first run'
    print(f"| {sid} | {m.get('needs_to_manifest','')} | {cells} | {note} |")
