#!/usr/bin/env bash
# Authoring helper: re-run the target quick check of every stored seeded change (scratch copies)
# and report which are (still) caught.   usage: tools/regress_seeds.sh [seed dirs…]
set -u
cd /verif
DIRS="${*:-$(ls -d seeded/C*/ | tr '\n' ' ')}"
for d in $DIRS; do
  id=$(basename "$d"); target=${id%%-*}
  line=$(tools/try_seed.sh "$d/patch.diff" "$target" 2>&1 | tail -1 | cut -c1-150)
  case "$line" in
    *" exit=1 "*) echo "CAUGHT  $id  $line";;
    *) echo "MISSED  $id  $line";;
  esac
done
