#!/usr/bin/env python3
"""Authoring helper: run all 18 quick checks (scratch copies, /repo untouched) against seeded
changes of one round and write their meta.json.
usage: tools/record_round.py <round> <needs.json> [first_run_missed ids...]"""
import json, os, subprocess, sys, queue, concurrent.futures as cf
rnd = int(sys.argv[1]); needs = json.load(open(sys.argv[2])); missed_first = set(sys.argv[3:])
props = {json.loads(l)['id']: json.loads(l) for l in open('/verif/properties.jsonl')}
IDS = sorted(props)
W = 3
slots = queue.Queue()
for k in range(W): slots.put(k)
def one(sid):
    k = slots.get()
    try:
        return one_(k, sid)
    finally:
        slots.put(k)
def one_(k, sid):
    d = f'/verif/seeded/{sid}'
    env = dict(os.environ, SEED_SCRATCH=f'/tmp/seedrun/w{k}')
    conf = subprocess.run(['/verif/tools/confirm_seed.sh', d], capture_output=True, text=True, env=env).stdout.strip().split('\n')[-3:]
    out = subprocess.run(['/verif/tools/try_seed.sh', f'{d}/patch.diff'], capture_output=True, text=True, env=env).stdout
    fire, silent, other = {}, [], {}
    for line in out.split('\n'):
        p = line.split(' ')
        if len(p) < 2 or p[0] not in props: continue
        if p[1] == 'exit=1':
            sigs = [s for s in line.split('violations  ')[1].split(';') if s.strip()] if 'violations  ' in line else []
            fire[p[0]] = [s.strip() for s in sigs]
        elif p[1] == 'exit=0': silent.append(p[0])
        else: other[p[0]] = line
    target = sid.split('-')[0]
    meta = {
        'property_broken': target, 'round': rnd, 'title': props[target].get('title', ''),
        'origin': 'independent sub-agent given the property text, the earlier ideas to avoid, the instruction to survive a strong generic property-based harness, and a scratch worktree of /repo (no access to /verif)',
        'needs_to_manifest': needs.get(sid, ''),
        'confirmed': {'how': 'tools/confirm_seed.sh', 'result': conf},
        'ran': f'tools/try_seed.sh seeded/{sid}/patch.diff (all 18 quick checks, VERIF_SEED=1, scratch copies; /repo untouched)',
        'target_check_first_run': 'missed' if sid in missed_first else 'caught',
        'checks_that_fire': fire, 'checks_silent': silent, 'checks_other': other,
        'caught_by_target_check': target in fire,
    }
    json.dump(meta, open(f'{d}/meta.json', 'w'), indent=1, ensure_ascii=False)
    return sid, sorted(fire), other
seeds = sorted(needs)
with cf.ThreadPoolExecutor(W) as ex:
    for sid, fire, other in ex.map(one, seeds):
        print(sid, 'fires:', ' '.join(fire), 'OTHER' if other else '', flush=True)
