#!/usr/bin/env bash
# Authoring helper: the brief's literal procedure — apply a seeded patch to /repo itself, run the
# registered quick check(s), undo straight afterwards.  usage: tools/seed_on_repo.sh <ID> [check IDs…]
set -u
ID="$1"; shift
CHECKS="${*:-$ID}"
cd /verif
git -C /repo diff --quiet || { echo "/repo has uncommitted changes"; exit 2; }
git -C /repo apply "/verif/seeded/$ID/patch.diff" || exit 2
for c in $CHECKS; do
  out="$(./check "$c" --tier quick 2>&1)"; code=$?
  echo "seed $ID -> check $c exit=$code $(echo "$out" | grep -E '^  signature:' | head -3 | sed 's/  signature: //' | tr '\n' ';')"
done
git -C /repo checkout -- .
