#!/usr/bin/env python3
"""Authoring helper (not a registered check): systematic first-order mutants of /repo's non-test
code, to estimate which simple slips the monitors see.  Usage:
   tools/mutate.py gen  OUTDIR          -> OUTDIR/m<k>.diff + index.json
   tools/mutate.py suite OUTDIR K N     -> worker K of N: which mutants compile and pass the suite
   tools/mutate.py check OUTDIR K N     -> worker K of N: run the quick checks on suite-surviving mutants
"""
import json, os, re, subprocess, sys

REPO = '/repo'
FILES = ['src/range.rs', 'src/lib.rs']

OPS = [
    (r' <= ', ' < '), (r' < ', ' <= '), (r' >= ', ' > '), (r' > ', ' >= '),
    (r' == ', ' != '), (r' != ', ' == '), (r' && ', ' || '), (r' \|\| ', ' && '),
    (r' \+ 1\b', ' + 2'), (r' \+ 1\b', ''), (r' - 1\b', ' - 2'), (r' - 1\b', ''),
    (r'\bIncluding\(', 'Excluding('), (r'\bExcluding\(', 'Including('),
    (r'Ordering::Less\b', 'Ordering::Greater'), (r'Ordering::Greater\b', 'Ordering::Less'), (r'Ordering::Equal\b', 'Ordering::Less'),
    (r'\.min\(\)', '.max()'), (r'\.max\(\)', '.min()'), (r'cmp::max\(', 'cmp::min('), (r'cmp::min\(', 'cmp::max('),
    (r'\btrue\b', 'false'), (r'\bfalse\b', 'true'),
    (r'unwrap_or\(0\)', 'unwrap_or(1)'),
    (r'\.is_prerelease\(\)', '.is_prerelease() == false'),
    (r'\bmajor \+ 1\b', 'major'), (r'\bminor \+ 1\b', 'minor'), (r'\bn \+ 1\b', 'n'),
    (r'MAX_SAFE_INTEGER\b', '(MAX_SAFE_INTEGER - 1)'), (r'MAX_LENGTH\b', '(MAX_LENGTH - 1)'),
    (r'return None;', 'return Some(vec![self.clone()]);'),
    (r'\.flip\(\)', ''),
    (r'\bspace0\b', 'space1'), (r'\bspace1\b', 'space0'),
    (r'opt\(literal\("-"\)\)', 'literal("-")'),
    (r'Numeric\(0\)', 'Numeric(1)'),
    (r'\(0, 0, 0, 0\)', '(0, 0, 0, 1)'), (r'\(0, 0, 0\)', '(0, 0, 1)'),
]

OPS2 = [
    (r'\bself\.lower\b', 'self.upper'), (r'\bself\.upper\b', 'self.lower'), (r'\bother\.lower\b', 'other.upper'), (r'\bother\.upper\b', 'other.lower'),
    (r'\bself\.(lower|upper)\b', lambda m: 'other.' + m.group(1)), (r'\bother\.(lower|upper)\b', lambda m: 'self.' + m.group(1)),
    (r'\bv1\b', 'v2'), (r'\bv2\b', 'v1'),
    (r'\bmajor\b', 'minor'), (r'\bminor\b', 'patch'), (r'\bpatch\b', 'minor'), (r'\bminor\b', 'major'),
    (r'\bpre_release\b', 'build'), (r'\bbuild\b', 'pre_release'),
    (r'\bhigh_version\b', 'low_version'), (r'\blow_version\b', 'high_version'), (r'\bhigh_has_pre\b', 'low_has_pre'), (r'\blow_has_pre\b', 'high_has_pre'),
    (r'\blefty\b', 'righty'), (r'\brighty\b', 'lefty'),
    (r'\b0\b', '1'), (r'\b1\b', '0'), (r'\b1\b', '2'),
    (r'Lower\(', 'Upper('), (r'Upper\(', 'Lower('),
    (r'\.is_empty\(\)', '.len() == 1'), (r'\.is_some\(\)', '.is_none()'), (r'\.is_none\(\)', '.is_some()'),
    (r'VersionDiff::(Major|Minor|Patch|PreMajor|PreMinor|PrePatch)\b', lambda m: 'VersionDiff::' + {'Major': 'Minor', 'Minor': 'Patch', 'Patch': 'Major', 'PreMajor': 'PreMinor', 'PreMinor': 'PrePatch', 'PrePatch': 'PreMajor'}[m.group(1)]),
    (r'^(\s+)(return [^;]+;|[a-z_\.]+\([^;]*\);|[a-z_]+ (\+|-)?= [^;]+;)$', lambda m: m.group(1) + '/* deleted */'),
    (r'\.clone\(\)\.predicate\(\)\.flip\(\)', '.clone().predicate()'),
    (r'Some\(v\.clone\(\)\)', 'None'),
    (r'\.then\(', '.and('),
    (r'\.any\(', '.all('), (r'\.all\(', '.any('),
    (r'\.filter_map\(', '.map(Some).filter_map(|x| x.and_then('),
    (r'x == \'-\'', "x == '_'"), (r'is_ascii_alphanumeric\(\)', 'is_ascii_alphabetic()'),
    (r'literal\("v"\)', 'literal("V")'), (r'literal\("V"\)', 'literal("v")'), (r'literal\("\|\|"\)', 'literal("|")'),
    (r'literal\(">="\)', 'literal("=>")'), (r'literal\("<="\)', 'literal("=<")'), (r'literal\("~"\)', 'literal("^")'), (r'literal\("\^"\)', 'literal("~")'),
    (r'literal\("x"\)', 'literal("y")'), (r'literal\("X"\)', 'literal("x")'), (r'literal\("\*"\)', 'literal("x")'), (r'literal\("\+"\)', 'literal("-")'), (r'literal\("\."\)', 'literal(",")'),
    (r'1\.\.', '0..'), (r'0\.\.', '1..'),
]

def non_test_region(path, lines):
    end = len(lines)
    for i, l in enumerate(lines):
        if path.endswith('range.rs') and l.startswith('macro_rules! create_tests_for'):
            end = i; break
        if path.endswith('lib.rs') and l.startswith('#[cfg(test)]'):
            end = i; break
    return end

def gen(outdir):
    os.makedirs(outdir, exist_ok=True)
    index = []
    k = 0
    for path in FILES:
        src = open(os.path.join(REPO, path)).read().split('\n')
        end = non_test_region(path, src)
        in_hook = False
        for i in range(end):
            line = src[i]
            s = line.strip()
            if 'verification hook' in line: in_hook = True
            if in_hook and line.startswith('impl fmt::Display for Range'): in_hook = False
            if in_hook or s.startswith('//') or s.startswith('///') or s.startswith('#[') or s.startswith('use ') or 'error(' in s or 'diagnostic(' in s or s.startswith('*') or s.startswith('/*'):
                continue
            for pat, rep in (OPS2 if os.environ.get('MUT_BATCH') == '2' else OPS):
                for m in re.finditer(pat, line):
                    # skip generics / lifetimes / arrows / closures params
                    ctx = line[max(0, m.start()-2):m.end()+2]
                    if '->' in ctx or '=>' in ctx or "<'" in ctx or 'PResult<' in line and pat in (r' < ', r' > '):
                        continue
                    new = line[:m.start()] + (rep(m) if callable(rep) else rep) + line[m.end():]
                    if new == line: continue
                    mutated = src[:i] + [new] + src[i+1:]
                    name = f'm{k:04d}'
                    a = os.path.join(outdir, name + '.orig'); b = os.path.join(outdir, name + '.new')
                    open(a, 'w').write('\n'.join(src)); open(b, 'w').write('\n'.join(mutated))
                    d = subprocess.run(['diff', '-u', '--label', 'a/' + path, '--label', 'b/' + path, a, b], capture_output=True, text=True).stdout
                    os.remove(a); os.remove(b)
                    open(os.path.join(outdir, name + '.diff'), 'w').write(d)
                    index.append({'id': name, 'file': path, 'line': i + 1, 'from': line.strip(), 'to': new.strip(), 'op': f'{pat} -> {rep if not callable(rep) else "fn"}'})
                    k += 1
    json.dump(index, open(os.path.join(outdir, 'index.json'), 'w'), indent=0)
    print(len(index), 'mutants')

def worker_dir(k):
    d = f'/tmp/seedrun/mut{k}'
    os.makedirs(d, exist_ok=True)
    if not os.path.isdir(d + '/repo'):
        subprocess.run(['git', '-C', REPO, 'worktree', 'add', '-q', '--detach', d + '/repo', 'HEAD'], check=True)
    return d

def suite(outdir, k, n):
    index = json.load(open(os.path.join(outdir, 'index.json')))
    d = worker_dir(k)
    res = {}
    for j, m in enumerate(index):
        if j % n != k: continue
        subprocess.run(['git', '-C', d + '/repo', 'checkout', '-q', '--', '.'])
        a = subprocess.run(['git', '-C', d + '/repo', 'apply', os.path.join(outdir, m['id'] + '.diff')])
        if a.returncode != 0:
            res[m['id']] = 'noapply'; continue
        t = subprocess.run(['cargo', 'test', '--offline', '--lib', '--quiet'], cwd=d + '/repo', capture_output=True, text=True)
        out = t.stdout + t.stderr
        if 'error' in out and 'could not compile' in out:
            res[m['id']] = 'nocompile'
        elif t.returncode == 0:
            res[m['id']] = 'survives-suite'
        else:
            res[m['id']] = 'killed-by-suite'
        json.dump(res, open(os.path.join(outdir, f'suite{k}.json'), 'w'))
    subprocess.run(['git', '-C', d + '/repo', 'checkout', '-q', '--', '.'])

ORDER = {'src/range.rs': 'C01 C07 C08 C03 C02 C09 C10 C11 C13 C14 C15 C06 C17 C05 C12 C04 C16 C18',
         'src/lib.rs': 'C05 C04 C12 C16 C17 C18 C06 C01 C13 C03 C02 C07 C08 C09 C10 C11 C14 C15'}

def check(outdir, k, n):
    index = json.load(open(os.path.join(outdir, 'index.json')))
    st = {}
    for f in os.listdir(outdir):
        if f.startswith('suite') and f.endswith('.json'):
            st.update(json.load(open(os.path.join(outdir, f))))
    surv = [m for m in index if st.get(m['id']) == 'survives-suite']
    res = {}
    for j, m in enumerate(surv):
        if j % n != k: continue
        env = dict(os.environ, SEED_SCRATCH=f'/tmp/seedrun/mut{k}')
        fired = None
        for c in ORDER[m['file']].split():
            p = subprocess.run(['/verif/tools/try_seed.sh', os.path.join(outdir, m['id'] + '.diff'), c], capture_output=True, text=True, env=env)
            line = [l for l in p.stdout.splitlines() if l.startswith(c + ' ')]
            if line and ' exit=1 ' in line[0]:
                fired = line[0][:200]; break
            if line and ' exit=2 ' in line[0] and 'HARNESS' in line[0] and 'build' in line[0]:
                fired = 'BUILD-FAIL ' + line[0][:160]; break
        res[m['id']] = fired or 'NOT-CAUGHT'
        json.dump(res, open(os.path.join(outdir, f'check{k}.json'), 'w'), indent=0)

if __name__ == '__main__':
    cmd = sys.argv[1]
    if cmd == 'gen': gen(sys.argv[2])
    elif cmd == 'suite': suite(sys.argv[2], int(sys.argv[3]), int(sys.argv[4]))
    elif cmd == 'check': check(sys.argv[2], int(sys.argv[3]), int(sys.argv[4]))
