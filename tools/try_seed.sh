#!/usr/bin/env bash
# Authoring helper (not a registered check): run the quick checks against a seeded change
# WITHOUT touching /repo: a scratch worktree of /repo gets the patch, a scratch copy of the
# harness is pointed at it.   usage: tools/try_seed.sh <patch.diff> [ID ...]   (default: all 18)
set -u
PATCH="$(readlink -f "$1")"; shift
IDS="${*:-C01 C02 C03 C04 C05 C06 C07 C08 C09 C10 C11 C12 C13 C14 C15 C16 C17 C18}"
S="${SEED_SCRATCH:-/tmp/seedrun/main}"
mkdir -p "$S"
if [ ! -d "$S/repo" ]; then git -C /repo worktree add -q --detach "$S/repo" HEAD || exit 2; fi
git -C "$S/repo" checkout -q --detach "$(git -C /repo rev-parse HEAD)" && git -C "$S/repo" checkout -q -- . && git -C "$S/repo" clean -qfd -e target
git -C "$S/repo" apply "$PATCH" || { echo "patch does not apply"; exit 2; }
mkdir -p "$S/verif"
rsync -a --delete --exclude target --exclude evidence --exclude replays /verif/harness /verif/check /verif/golden /verif/KNOWN_FINDINGS "$S/verif/"
sed -i "s#path = \"/repo\"#path = \"$S/repo\"#" "$S/verif/harness/Cargo.toml"
for id in $IDS; do
  out="$("$S/verif/check" "$id" --tier quick 2>&1)"; code=$?
  sigs="$(echo "$out" | grep -E '^  signature:' | sed 's/  signature: //' | head -5 | tr '\n' ';')"
  echo "$id exit=$code $(echo "$out" | grep -c '^VIOLATION') violations  $sigs $(echo "$out" | grep -E 'HARNESS-ERROR|INCONCLUSIVE' | head -2 | cut -c1-160)"
done
git -C "$S/repo" checkout -q -- .
