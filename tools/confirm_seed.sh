#!/usr/bin/env bash
# Authoring helper: confirm a seeded change in a scratch worktree:
#   suite green with the patch, demo passes without the patch, demo fails with it.
# usage: tools/confirm_seed.sh <dir with patch.diff and demo.rs>
set -u
D="$(readlink -f "$1")"
W="${SEED_SCRATCH:-/tmp/mym}/confirm"; mkdir -p "$(dirname "$W")"
if [ ! -d "$W" ]; then git -C /repo worktree add -q --detach "$W" HEAD || exit 2; fi
cd "$W" && git checkout -q --detach "$(git -C /repo rev-parse HEAD)" && git checkout -q -- . && git clean -qfd -e target
mkdir -p tests && cp "$D/demo.rs" tests/seed_demo.rs
without=$(cargo test --offline --test seed_demo 2>&1 | grep -E "^test result" | tail -1)
git apply "$D/patch.diff" || { echo "PATCH DOES NOT APPLY"; exit 2; }
with=$(cargo test --offline --test seed_demo 2>&1 | grep -E "^test result" | tail -1)
rm -rf tests
suite=$(cargo test --offline 2>&1 | grep -E "^test result" | tr '\n' ' ')
git checkout -q -- . ; git clean -qfd -e target
echo "demo without patch: $without"
echo "demo with patch:    $with"
echo "suite with patch:   $suite"
