#!/usr/bin/env python3
"""Regenerates /verif/MANIFEST.json from the table below (authoring helper, not a check)."""
import json, subprocess
props = [json.loads(l) for l in open('/verif/properties.jsonl')]
T = {
 'C01': ('reference-model monitor: documented npm desugaring of a generated range AST vs Range::satisfies on boundary probes (exhaustive operator x shape table, pairs, random loose spellings)', '5 C01'),
 'C02': ('metamorphic monitor (crate vs crate): parse(a||b) vs parse(a) or parse(b); parse(a b) vs both sides on release / within-bounds-and-one-side on prerelease; order and garbage invariance; pairs of the exhaustive comparator table + random lists + triples in all orders', '5 C02'),
 'C03': ('reference-model monitor of the prerelease gate relative to the hook-observed bounds: satisfies == within bounds and a written same-tuple tag; build-metadata invariance; resolver use via max/min_satisfying', '5 C03'),
 'C04': ('reference-model monitor: SemVer §11 order written over identifier text vs Ord/Eq/PartialOrd/Hash on all ordered pairs of a version pool, sampled triples, sort/BTreeSet/min/max of sub-lists', '5 C04'),
 'C05': ('reference-model monitor: hand-written version grammar recogniser + denotation (strict language must parse, accepted strings must lie in the loose envelope, fields must equal the denotation) over every string of a 9-character alphabet up to length 7/9, one-edit neighbourhoods, near-limit inputs', '5 C05'),
 'C11': ('reference-model monitor: least admitted version from hook-observed bounds by an exact candidate-set model (self-checked against brute force), witnesses re-confirmed by the crate satisfies', '5 C11'),
 'C12': ('round-trip monitor: parse -> print -> parse field equality, fixed point, serde JSON = printed string, over every accepted string of the exhaustive enumeration, loose spellings, near-limit inputs, field-built versions', '5 C12'),
 'C17': ('invariant monitor on every parse error observed on hostile inputs: input()/offset()/span/location() recomputed independently, miette diagnostics rendered, error-kind clauses', '5 C17'),
 'C18': ('differential monitor: From<(T,T,T[,T])> for all ten integer types vs Version::parse of the dotted string (exhaustive u8/i8 triples, boundary values for wide types)', '5 C18'),
 'C06': ('crash / hang / UB monitoring: hostile strings and all operation compositions in shard subprocesses built with overflow checks and debug assertions (panic capture with first in-crate frame, signal and CPU-limit containment), an assertions-off slice, cachegrind instruction counts at n/2n/4n for 17 input families x 8 operations, valgrind memcheck slice, Miri slice (thorough)', '5 C06'),
 'C07': ('reference-model monitor: pointwise interval-membership oracle over hook-observed bounds, exhaustive bound-kind table + random multi-alternative operands + results fed back', '5 C07'),
 'C08': ('reference-model monitor: pointwise set-difference oracle over hook-observed bounds (all alternatives of B), exact emptiness by interval model, partition with intersect', '5 C08'),
 'C09': ('metamorphic + reference-model monitor: allows_any vs intersect().is_some() vs exact interval overlap, exhaustive touching-endpoint table', '5 C09'),
 'C10': ('reference-model monitor: allows_all soundness on boundary probes, self-inclusion, equivalence with difference().is_none() for single alternatives', '5 C10'),
 'C13': ('round-trip monitor: print -> parse -> same satisfies and hook bounds on boundary probes, == for parsed ranges, fixed point, Display read back against hook state, serde; over parsed ranges and results of up to three set operations', '5 C13'),
 'C14': ('oracle monitor: max/min_satisfying result vs candidates under the model order, pointer-into-slice check, all permutations of short lists', '5 C14'),
 'C15': ('reference-model monitor: expression trees over intersect/difference evaluated by the crate vs pointwise set algebra on hook-observed leaf bounds; algebraic identities on crate results; intermediates re-parsed and reused', '5 C15'),
 'C16': ('reference-model monitor: table statement of node-semver 7.6.2 diff (validated against frozen real answers) over exhaustive small-field pairs + random pairs', '5 C16'),
}
ASSURE = {
 'C01': "Exhaustive over operator x partial shape x {0,1,2} (and hyphen shape pairs), sampled/complete pairs, random compound ranges with every loose spelling; each judged on ~30 probes per bound against the documented desugaring (cross-validated on 875k answers of real node-semver).",
 'C02': "Crate-vs-crate laws for union, conjunction (release and prerelease clauses), order and garbage invariance over pairs of the exhaustive comparator table, random lists and triples in all orders.",
 'C03': "Gate decided relative to the crate's own observed bounds: every tagged comparator form x tuples x tags, conjunctions with non-tight tagged bounds, generated -0 bounds, unions with tag and bounds in different alternatives, build-metadata invariance, resolver use.",
 'C04': "All ordered pairs of a pool of ~1,200 (quick) / ~4,000 (thorough) versions against a text-level SemVer order, coherence of Eq/Ord/PartialOrd/Hash, sampled triples, sorting and collections.",
 'C05': "Every string over a 9-character alphabet up to length 7 (quick) / 10 (thorough), one-edit neighbourhoods, length and numeric limits, against a recogniser with denotation (strict language must parse; accepted strings must be in the loose envelope with faithful fields).",
 'C06': "Panic/abort/timeout containment over exhaustive short strings of both alphabets, operation compositions to depth 3, random UTF-8, limits, long inputs; assertions-off slice; instruction-count growth at n/2n/4n for 17 families x 8 operations; memcheck slice every run, Miri slice in thorough.",
 'C07': "Exhaustive bound-kind table (121 intervals, all ordered pairs) + multi-alternative, prerelease and big-number operands + results fed back; pointwise membership, satisfaction clauses, exact emptiness, commutativity, idempotence, associativity.",
 'C08': "Same operand space as C07 plus exhaustive two-alternative B; pointwise over all alternatives of B, exact None-clause, disjointness from B, partition with intersect.",
 'C09': "Same operand space; allows_any vs intersect vs exact interval overlap, symmetry, touching endpoints, exact-version probes against observed bounds.",
 'C10': "Same operand space with single-alternative B; soundness on probes, implication of allows_any, self-inclusion, equivalence with difference().is_none().",
 'C11': "Table intervals, all ordered pairs of them as two alternatives, random and set-operation ranges; least admitted version by an exact candidate-set model (brute-force self-check each run), witnesses confirmed by the crate's satisfies.",
 'C12': "Every accepted string of the exhaustive enumeration, loose spellings, near-limit lengths and numbers, zero-padded identifiers, field-built versions; five-field round trip, fixed point, serde.",
 'C13': "Operator x shape table (also at MAX_SAFE and with build metadata), bound-kind table, random loose spellings, chains of up to three set operations; equivalence on probes, equality, fixed point, Display read back against stored state, serde.",
 'C14': "Random ranges x lists drawn from the range's own boundary probes (duplicates, build-only variants, prereleases above the top release); all permutations of short lists; pointer-into-slice, candidate and extremeness checks under the model order.",
 'C15': "Expression trees to depth 3 (exhaustive depth-2 over a small table in thorough) evaluated by the crate vs pointwise set algebra; the seven identities of the statement; intermediates re-parsed and reused.",
 'C16': "All 46,656 ordered pairs over small fields x tags x build (and with MAX_SAFE fields) + random pairs against a table statement of node-semver 7.6.2 diff (cross-validated on frozen real answers).",
 'C17': "Every error observed on exhaustive short strings, one-edit neighbourhoods, multi-line/multi-byte inputs and the MAX_LENGTH boundary sweep: input, offset, span, location recomputed independently; diagnostics rendered; kind clauses.",
 'C18': "u8 and i8 triples exhaustively (thorough), quadruples over value grids, 17 boundary values in every position for all ten integer types, against Version::parse of the dotted string.",
}
checks = []
for p in props:
    i = p['id']
    if i in T:
        checks.append({
            "property_id": i,
            "quick_cmd": f"./check {i} --tier quick",
            "thorough_cmd": f"./check {i} --tier thorough",
            "evidence_file": f"/verif/evidence/{i}.json",
            "replay_cmd_template": f"./check {i} --replay {{path}}",
            "engine": "verif-harness",
            "level_claimed": {"category": "exploration", "text": ASSURE[i] + " Runtime monitoring: the real crate (built from /repo's working tree, hook cfg on) is executed and every observed answer is judged by an oracle the harness owns; the verdict covers the executions of the run only (held on what was observed / violated with a replayable witness / inconclusive). Validated against independently seeded changes (DESIGN.md §9).", "design_ref": "DESIGN.md §" + T[i][1]},
            "level_note": "Trusted: the harness's reference models (cross-checked at every run against frozen answers of real node-semver 7.6.2 in golden/), rustc/cargo, the read-only hook Range::verif_bounds(). Says nothing about inputs outside the generated strata.",
            "technique": T[i][0],
        })
commits = subprocess.run(['git', '-C', '/repo', 'log', '--format=%h %s'], capture_output=True, text=True).stdout.splitlines()
hook_commits = [c.split()[0] for c in commits if c.split(' ', 1)[1].startswith('verif hook')]
m = {"version": 1,
     "setup_cmd": "./check --build-only",
     "hooks": {"guard": "nodejs_semver_verif", "enable": "RUSTFLAGS=\"--cfg nodejs_semver_verif\" (set by ./check when it builds the harness, which has /repo as a path dependency)", "baseline_off_cmd": "cd /repo && cargo test --offline", "source_commits": hook_commits, "add_only": True},
     "engines": [{"name": "verif-harness", "path": "/verif/harness", "serves_properties": [c['property_id'] for c in checks], "kind_free_text": "Rust monitoring harness linked against the crate: workload generators, reference models, oracles, shard orchestration, evidence writer"}],
     "checks": checks,
     "not_applicable": [{"property_id": p['id'], "reason": "monitor not built yet (work in progress; the technique applies)"} for p in props if p['id'] not in T],
     "notes": "See DESIGN.md. Exit codes: 0 held on what was observed (KNOWN-FINDING lines for entries of KNOWN_FINDINGS), 1 violation (VIOLATION line + replay file), 2 harness error / inconclusive."}
json.dump(m, open('/verif/MANIFEST.json', 'w'), indent=1)
print("claimed:", [c['property_id'] for c in checks])
