import sys,collections,re
inp=open(sys.argv[1]).read().split('\n'); a=open(sys.argv[2]).read().split('\n'); b=open(sys.argv[3]).read().split('\n')
cls=collections.OrderedDict(); n=0; bad=0
for i,(l,x,y) in enumerate(zip(inp,a,b)):
    if not l: continue
    n+=1
    f=l.split('\t'); xs=x.split('\t'); ys=y.split('\t')
    nx=[c.replace('-','0') for c in xs[1:]]; ny=[c.replace('-','0') for c in ys[1:]]
    xs=xs[:1]+nx; ys=ys[:1]+ny
    if xs[1:]!=ys[1:] :
        bad+=1
        d=[(f[j],xs[j],ys[j]) for j in range(1,len(f)) if j<len(xs) and j<len(ys) and xs[j]!=ys[j]]
        shape=re.sub(r'\d+','N',f[0])
        cls.setdefault(shape,[]).append((f[0],xs[0],ys[0],d[:3]))
print(n,'ranges',bad,'disagree',len(cls),'shapes')
for k,v in list(cls.items())[:int(sys.argv[4]) if len(sys.argv)>4 else 60]:
    print(k,len(v)); print('   ',v[0])
