import random, sys, re
rnd = random.Random(int(sys.argv[1])); N=int(sys.argv[2])
MAXS=900719925474099
NUMS=['0','0','1','1','2','3','10','01','007','2','3','900719925474099','900719925474098']
PRES=['alpha','beta','0','1','rc.1','alpha.1','-','00','01','a-b','0a','x','X','1x']
def comp():
    if rnd.random()<0.1: return rnd.choice(['x','X','*'])
    return rnd.choice(NUMS)
def partial():
    n = rnd.choice([1,2,3,3,3])
    cs=[comp() for _ in range(n)]
    s='.'.join(cs)
    if rnd.random()<0.2: s='v'+s
    if n==3 and all(c.isdigit() for c in cs):
        if rnd.random()<0.4: s+=rnd.choice(['-','-','-',''])+rnd.choice(PRES)
        if rnd.random()<0.15: s+='+'+rnd.choice(['b.1','001','-','a.b'])
    return s
OPS=['','=','>','>=','<','<=','~','^','~>']
GARB=['foo','1.2.3.4','1.2beta4','>=1.y','<','>=','~','^','-','1.2.3-','1.2.3+','=>1.2.3','<>1','!1.2.3','1.2.3,','1,2','<=>1']
def comparator():
    if rnd.random()<0.08: return rnd.choice(GARB)
    op=rnd.choice(OPS)
    sp=rnd.choice(['','','',' ','  ','\t']) if op else ''
    return op+sp+partial()
def alt():
    if rnd.random()<0.15:
        return partial()+rnd.choice([' - ','  -  ',' -  '])+partial()
    k=rnd.choice([1,1,2,2,3])
    return rnd.choice([' ','  ']).join(comparator() for _ in range(k))
def rng():
    k=rnd.choice([1,1,1,2,3])
    s=rnd.choice(['||',' || ','|| ']).join(alt() for _ in range(k))
    if rnd.random()<0.1: s=' '+s
    if rnd.random()<0.1: s=s+' '
    return s
def versions(r):
    tuples=set()
    trip=re.findall(r'(\d+)(?:\.(\d+|[xX*]))?(?:\.(\d+|[xX*]))?', r)
    for a,b,c in trip:
        a=int(a); b=int(b) if b.isdigit() else 0; c=int(c) if c.isdigit() else 0
        for da,db,dc in [(0,0,0),(0,0,1),(0,1,0),(1,0,0),(0,0,-1),(0,-1,0),(-1,0,0),(0,1,-c),(1,-b,-c)]:
            t=(a+da,b+db,c+dc)
            if min(t)>=0 and max(t)<=MAXS: tuples.add(t)
    tuples.add((0,0,0)); tuples.add((MAXS,MAXS,MAXS))
    tuples=list(tuples); rnd.shuffle(tuples); tuples=tuples[:14]
    vs=[]
    for t in tuples:
        base='%d.%d.%d'%t
        vs.append(base)
        for p in rnd.sample(['0','alpha','beta','rc.1','1','alpha.0','zzz','-','0a','a-b'],3): vs.append(base+'-'+p)
    return vs
for _ in range(N):
    r=rng()
    if '\t' in r: r=r.replace('\t','  ')
    print('\t'.join([r]+versions(r)))
