const semver = require('/root/.nvm/versions/node/v18.20.8/lib/node_modules/npm/node_modules/semver');
const rl = require('readline').createInterface({input: process.stdin});
rl.on('line', (line) => { const [a,b] = line.split('\t'); try { console.log(semver.compare(a,b,{loose:true}) + '\t' + semver.diff(a,b)); } catch(e) { console.log('E'); } });
