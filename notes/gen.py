import random, sys, itertools
rnd = random.Random(int(sys.argv[1]) if len(sys.argv)>1 else 1)
N = int(sys.argv[2]) if len(sys.argv)>2 else 2000
mode = sys.argv[3] if len(sys.argv)>3 else 'mixed'
NUMS=[0,0,1,1,2,3,10]
PRES=['alpha','beta','0','1','rc.1','alpha.1','alpha.beta','-']
def comp(allow_x=True):
    if allow_x and rnd.random()<0.2: return rnd.choice(['x','X','*'])
    return str(rnd.choice(NUMS))
def partial():
    n = rnd.choice([1,2,3,3,3])
    cs=[comp() for _ in range(n)]
    s='.'.join(cs)
    if n==3 and all(c.isdigit() for c in cs):
        if rnd.random()<0.35: s+='-'+rnd.choice(PRES)
        if rnd.random()<0.1: s+='+b.1'
    return s
OPS=['','=','>','>=','<','<=','~','^','~>']
def comparator():
    return rnd.choice(OPS)+partial()
def alt():
    if mode!='nohyphen' and rnd.random()<0.15:
        return partial()+' - '+partial()
    k=rnd.choice([1,1,2,2,3])
    return ' '.join(comparator() for _ in range(k))
def rng():
    k=rnd.choice([1,1,1,2,3])
    return rnd.choice(['||',' || ','|| ']).join(alt() for _ in range(k))
import re
def versions(r):
    nums=set(int(x) for x in re.findall(r'\d+', r)) | {0,1}
    tuples=set()
    trip=re.findall(r'(\d+)(?:\.(\d+|[xX*]))?(?:\.(\d+|[xX*]))?', r)
    for a,b,c in trip:
        a=int(a); b=int(b) if b.isdigit() else 0; c=int(c) if c.isdigit() else 0
        for da,db,dc in [(0,0,0),(0,0,1),(0,1,0),(1,0,0),(0,0,-1),(0,-1,0),(-1,0,0),(0,1,-c),(1,-b,-c)]:
            t=(a+da,b+db,c+dc)
            if min(t)>=0: tuples.add(t)
    tuples=list(tuples); rnd.shuffle(tuples); tuples=tuples[:14]
    vs=[]
    for t in tuples:
        base='%d.%d.%d'%t
        vs.append(base)
        for p in rnd.sample(['0','alpha','beta','rc.1','1','alpha.0','zzz'],3): vs.append(base+'-'+p)
    return vs
for _ in range(N):
    r=rng()
    print('\t'.join([r]+versions(r)))
