const semver = require('/root/.nvm/versions/node/v18.20.8/lib/node_modules/npm/node_modules/semver');
const rl = require('readline').createInterface({input: process.stdin});
const opt = {loose: true};
rl.on('line', (line) => {
  const [r, ...vs] = line.split('\t');
  let range;
  try { range = new semver.Range(r, opt); } catch (e) { console.log(['INVALID'].concat(vs.map(()=>'-')).join('\t')); return; }
  const out = [range.range === '' ? '*' : range.range];
  for (const v of vs) { let sv; try { sv = new semver.SemVer(v, opt); out.push(range.test(sv) ? '1':'0'); } catch(e) { out.push('E'); } }
  console.log(out.join('\t'));
});
