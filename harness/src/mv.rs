//! Model version: an independent statement of SemVer 2.0.0 §11 precedence over the *text*
//! of identifiers. Shares no code and no derive with the crate under test.

use nodejs_semver::{Identifier, Version};
use std::cmp::Ordering;

pub const MAX_SAFE: u64 = 900_719_925_474_099;

#[derive(Clone, Debug, PartialEq, Eq, Hash)]
pub struct MV {
    pub major: u64,
    pub minor: u64,
    pub patch: u64,
    pub pre: Vec<String>,
    pub build: Vec<String>,
}

pub fn all_digits(s: &str) -> bool {
    !s.is_empty() && s.bytes().all(|b| b.is_ascii_digit())
}

/// SemVer §11.4: numeric identifiers compare numerically, alphanumeric ones by ASCII order,
/// numeric < alphanumeric. Numeric comparison is done on the digit strings (length after
/// stripping leading zeros, then lexicographic) so that no integer type is involved.
pub fn cmp_id(a: &str, b: &str) -> Ordering {
    match (all_digits(a), all_digits(b)) {
        (true, true) => {
            let sa = a.trim_start_matches('0');
            let sb = b.trim_start_matches('0');
            sa.len().cmp(&sb.len()).then_with(|| sa.as_bytes().cmp(sb.as_bytes()))
        }
        (true, false) => Ordering::Less,
        (false, true) => Ordering::Greater,
        (false, false) => a.as_bytes().cmp(b.as_bytes()),
    }
}

pub fn cmp_pre(a: &[String], b: &[String]) -> Ordering {
    match (a.is_empty(), b.is_empty()) {
        (true, true) => return Ordering::Equal,
        (true, false) => return Ordering::Greater, // release above its prereleases
        (false, true) => return Ordering::Less,
        _ => {}
    }
    let mut i = 0;
    loop {
        match (a.get(i), b.get(i)) {
            (None, None) => return Ordering::Equal,
            (None, Some(_)) => return Ordering::Less, // strict prefix is lower
            (Some(_), None) => return Ordering::Greater,
            (Some(x), Some(y)) => {
                let c = cmp_id(x, y);
                if c != Ordering::Equal {
                    return c;
                }
            }
        }
        i += 1;
    }
}

/// Precedence (build metadata ignored).
pub fn cmp_mv(a: &MV, b: &MV) -> Ordering {
    if a.major != b.major {
        return if a.major < b.major { Ordering::Less } else { Ordering::Greater };
    }
    if a.minor != b.minor {
        return if a.minor < b.minor { Ordering::Less } else { Ordering::Greater };
    }
    if a.patch != b.patch {
        return if a.patch < b.patch { Ordering::Less } else { Ordering::Greater };
    }
    cmp_pre(&a.pre, &b.pre)
}

pub fn id_to_crate(s: &str) -> Identifier {
    if all_digits(s) {
        if let Ok(n) = s.parse::<u64>() {
            return Identifier::Numeric(n);
        }
    }
    Identifier::AlphaNumeric(s.to_string())
}

pub fn id_from_crate(i: &Identifier) -> String {
    match i {
        Identifier::Numeric(n) => n.to_string(),
        Identifier::AlphaNumeric(s) => s.clone(),
    }
}

impl MV {
    pub fn new(major: u64, minor: u64, patch: u64) -> MV {
        MV { major, minor, patch, pre: vec![], build: vec![] }
    }
    pub fn with_pre(mut self, pre: &[&str]) -> MV {
        self.pre = pre.iter().map(|s| s.to_string()).collect();
        self
    }
    pub fn with_pre_s(mut self, pre: &str) -> MV {
        self.pre = if pre.is_empty() { vec![] } else { pre.split('.').map(|s| s.to_string()).collect() };
        self
    }
    pub fn with_build_s(mut self, b: &str) -> MV {
        self.build = if b.is_empty() { vec![] } else { b.split('.').map(|s| s.to_string()).collect() };
        self
    }
    pub fn tuple(&self) -> (u64, u64, u64) {
        (self.major, self.minor, self.patch)
    }
    pub fn is_pre(&self) -> bool {
        !self.pre.is_empty()
    }
    pub fn release(&self) -> MV {
        MV::new(self.major, self.minor, self.patch)
    }
    pub fn no_build(&self) -> MV {
        let mut v = self.clone();
        v.build.clear();
        v
    }
    pub fn text(&self) -> String {
        let mut s = format!("{}.{}.{}", self.major, self.minor, self.patch);
        if !self.pre.is_empty() {
            s.push('-');
            s.push_str(&self.pre.join("."));
        }
        if !self.build.is_empty() {
            s.push('+');
            s.push_str(&self.build.join("."));
        }
        s
    }
    /// Build the crate's value directly through its public fields (no parsing involved).
    pub fn to_crate(&self) -> Version {
        Version {
            major: self.major,
            minor: self.minor,
            patch: self.patch,
            pre_release: self.pre.iter().map(|s| id_to_crate(s)).collect(),
            build: self.build.iter().map(|s| id_to_crate(s)).collect(),
        }
    }
    pub fn from_crate(v: &Version) -> MV {
        MV {
            major: v.major,
            minor: v.minor,
            patch: v.patch,
            pre: v.pre_release.iter().map(id_from_crate).collect(),
            build: v.build.iter().map(id_from_crate).collect(),
        }
    }
    /// Immediate successor in precedence order: `M.m.p-x` -> `M.m.p-x.0`,
    /// release `M.m.p` -> `M.m.(p+1)-0` (the least prerelease of the next patch).
    /// Nothing lies strictly between a version and its successor.
    pub fn succ(&self) -> MV {
        let mut v = self.no_build();
        if v.is_pre() {
            v.pre.push("0".to_string());
        } else {
            v.patch += 1;
            v.pre = vec!["0".to_string()];
        }
        v
    }
    /// least release version >= self
    pub fn release_ceil(&self) -> MV {
        self.release()
    }
}

impl PartialOrd for MV {
    fn partial_cmp(&self, o: &MV) -> Option<Ordering> {
        Some(cmp_mv(self, o))
    }
}

pub fn mv_lt(a: &MV, b: &MV) -> bool {
    cmp_mv(a, b) == Ordering::Less
}
pub fn mv_le(a: &MV, b: &MV) -> bool {
    cmp_mv(a, b) != Ordering::Greater
}
pub fn mv_eq(a: &MV, b: &MV) -> bool {
    cmp_mv(a, b) == Ordering::Equal
}

/// Strict model parse of a canonical printed version (what the crate's Display emits).
/// Returns None if the text is not `N.N.N[-ids][+ids]` with ids over [0-9A-Za-z-].
pub fn parse_canonical(s: &str) -> Option<MV> {
    let (core_pre, build) = match s.find('+') {
        Some(i) => (&s[..i], Some(&s[i + 1..])),
        None => (s, None),
    };
    let (core, pre) = match core_pre.find('-') {
        Some(i) => (&core_pre[..i], Some(&core_pre[i + 1..])),
        None => (core_pre, None),
    };
    let mut it = core.split('.');
    let a = it.next()?;
    let b = it.next()?;
    let c = it.next()?;
    if it.next().is_some() {
        return None;
    }
    let num = |t: &str| -> Option<u64> {
        if !all_digits(t) || t.len() > 16 {
            return None;
        }
        t.parse::<u64>().ok()
    };
    let ids = |t: Option<&str>| -> Option<Vec<String>> {
        match t {
            None => Some(vec![]),
            Some(t) => {
                let mut out = vec![];
                for p in t.split('.') {
                    if p.is_empty() || !p.bytes().all(|b| b.is_ascii_alphanumeric() || b == b'-') {
                        return None;
                    }
                    out.push(p.to_string());
                }
                Some(out)
            }
        }
    };
    Some(MV { major: num(a)?, minor: num(b)?, patch: num(c)?, pre: ids(pre)?, build: ids(build)? })
}
