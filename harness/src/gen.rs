//! Version generators and boundary-directed probe sets.

use crate::mv::*;
use crate::rng::Rng;

pub const NUMS_SMALL: &[u64] = &[0, 1, 2, 3];
pub const NUMS_POOL: &[u64] = &[0, 0, 0, 1, 1, 1, 2, 2, 3, 9, 10, 11, 99, 100, 1 << 31, 1 << 32, MAX_SAFE - 1, MAX_SAFE, 100_000_000, 300_000_000, 2_100_000_000, 4_294_967_295, 5_000_000_000, 9_999_999_999, 10_000_000_000, 1_000_000_000_000, 900_719_900_000_000,
    // binary structure: carries out of packed fields, truncating casts
    1 << 16, 1 << 20, (1 << 20) + 1, 1 << 24, 1 << 28, (1 << 32) + 5, 1 << 40, 1 << 48, 1 << 49];
pub const ID_ATOMS: &[&str] = &[
    "0", "1", "2", "9", "10", "a", "A", "b", "alpha", "beta", "rc", "-", "--", "a-", "-a", "0a", "a0", "1a", "x", "X", "18446744073709551615",
    "18446744073709551614", "pre", "z", "Z", "0-0", "-0", "-1",
    // texts other number syntaxes would accept (float / exponent / radix / separators / specials)
    "1e5", "2E10", "7e-3", "0e0", "1e", "0x10", "0b1", "0o7", "1f", "1d", "inf", "nan", "NaN", "infinity", "1-0", "00a", "0-", "9007199254740993", "900719925474099", "900719925474100",
    // decimal-round numbers (chunked / digit-group parsers), capital letters
    "100000000", "300000000", "2100000000", "10000000000", "900719900000000", "1000000000000000000", "DEV", "RC", "V2", "V", "X",
    // identifiers ending in the letters the grammar treats specially in front of a version
    "v", "dev", "rev", "1v", "x-",
];

/// Numbers with structure in binary or decimal: every power of two and its neighbours, small
/// multiples of 2^s plus a small digit (a truncating cast or a packed key keeps only the low
/// part), powers of ten and their neighbours, values with a four-digit group of 9999 / 0000.
pub fn structured_numbers() -> Vec<u64> {
    let mut v: Vec<u64> = vec![0, 1, 2, 9, 10];
    for k in 1..=63u32 {
        let p = 1u64 << k;
        v.extend([p - 1, p, p.saturating_add(1)]);
    }
    v.push(u64::MAX);
    v.push(u64::MAX - 1);
    for s in [8u32, 16, 20, 24, 28, 31, 32, 33, 40, 48, 52] {
        for m in [1u64, 2, 3, 7] {
            for d in 0..=10u64 {
                v.push((m << s) + d);
            }
        }
    }
    for e in 1..=19u32 {
        let p = 10u64.pow(e);
        v.extend([p - 1, p, p + 1]);
    }
    v.extend([9_999, 19_999, 29_999, 99_990_000, 100_001_234, 123_499_995_678, 1_000_012_345_678, 59_999, 10_000_9999]);
    v.sort();
    v.dedup();
    v
}

pub fn rand_ids(r: &mut Rng, max: usize) -> Vec<String> {
    let n = r.below(max + 1);
    (0..n).map(|_| r.pick(ID_ATOMS).to_string()).collect()
}

pub fn rand_version(r: &mut Rng, small: bool) -> MV {
    let pool: &[u64] = if small { NUMS_SMALL } else { NUMS_POOL };
    let mut v = MV::new(*r.pick(pool), *r.pick(pool), *r.pick(pool));
    if r.chance(1, 2) {
        v.pre = rand_ids(r, 3);
        if v.pre.is_empty() {
            v.pre.push(r.pick(ID_ATOMS).to_string());
        }
    }
    if r.chance(1, 5) {
        v.build = rand_ids(r, 2);
    }
    v
}

/// small-number version with probability num/den, big-number pool otherwise
pub fn rand_version_mix(r: &mut Rng, num: u32, den: u32) -> MV {
    let small = r.chance(num, den);
    rand_version(r, small)
}

fn push(out: &mut Vec<MV>, v: MV) {
    out.push(v);
}

/// ≈30 probe versions placed at and next to a basis version (DESIGN §3 "Probe versions").
pub fn probes_around(b: &MV, out: &mut Vec<MV>) {
    let (ma, mi, pa) = b.tuple();
    push(out, b.no_build());
    push(out, b.no_build().with_build_s("b.1"));
    push(out, b.release());
    push(out, b.succ());
    if pa < u64::MAX - 1 {
        push(out, MV::new(ma, mi, pa + 1));
        push(out, MV::new(ma, mi, pa + 1).with_pre(&["0"]));
        push(out, MV::new(ma, mi, pa + 1).with_pre(&["alpha"]));
    }
    if pa > 0 {
        push(out, MV::new(ma, mi, pa - 1));
        push(out, MV::new(ma, mi, pa - 1).with_pre(&["alpha"]));
    }
    if mi < u64::MAX - 1 {
        push(out, MV::new(ma, mi + 1, 0));
        push(out, MV::new(ma, mi + 1, 0).with_pre(&["0"]));
        push(out, MV::new(ma, mi + 1, 0).with_pre(&["alpha"]));
    }
    if mi > 0 {
        push(out, MV::new(ma, mi - 1, 0));
        push(out, MV::new(ma, mi - 1, MAX_SAFE));
    }
    if ma < u64::MAX - 1 {
        push(out, MV::new(ma + 1, 0, 0));
        push(out, MV::new(ma + 1, 0, 0).with_pre(&["0"]));
        push(out, MV::new(ma + 1, 0, 0).with_pre(&["alpha"]));
    }
    if ma > 0 {
        push(out, MV::new(ma - 1, 0, 0));
        push(out, MV::new(ma - 1, MAX_SAFE, MAX_SAFE));
    }
    // prereleases on b's own tuple
    for p in [&["0"][..], &["0", "0"], &["a"], &["zzz"], &["alpha"], &["5"], &["-"]] {
        push(out, MV::new(ma, mi, pa).with_pre(p));
    }
    if b.is_pre() {
        // neighbours of b's own tag
        let mut lower = b.no_build();
        let last = lower.pre.last().cloned().unwrap();
        if all_digits(&last) {
            if let Ok(n) = last.parse::<u64>() {
                if n > 0 {
                    *lower.pre.last_mut().unwrap() = (n - 1).to_string();
                    push(out, lower.clone());
                }
                if n < u64::MAX {
                    let mut up = b.no_build();
                    *up.pre.last_mut().unwrap() = (n + 1).to_string();
                    push(out, up);
                }
            }
        } else {
            let mut up = b.no_build();
            up.pre.last_mut().unwrap().push('-');
            push(out, up);
            if last.len() > 1 {
                let mut dn = b.no_build();
                let l = dn.pre.last_mut().unwrap();
                l.pop();
                push(out, dn);
            }
        }
        if b.pre.len() > 1 {
            let mut pfx = b.no_build();
            pfx.pre.pop();
            push(out, pfx);
        }
    }
}

pub fn global_probes(out: &mut Vec<MV>) {
    push(out, MV::new(0, 0, 0).with_pre(&["0"]));
    push(out, MV::new(0, 0, 0));
    push(out, MV::new(0, 0, 1));
    push(out, MV::new(1, 0, 0));
    push(out, MV::new(MAX_SAFE, MAX_SAFE, MAX_SAFE));
}

/// Probe set for a list of basis versions; deduplicated by text, build variants kept.
pub fn probe_set(basis: &[MV]) -> Vec<MV> {
    let mut out = vec![];
    global_probes(&mut out);
    let mut seen_basis: Vec<String> = vec![];
    for b in basis {
        let t = b.no_build().text();
        if seen_basis.contains(&t) {
            continue;
        }
        seen_basis.push(t);
        probes_around(b, &mut out);
    }
    let mut seen = std::collections::HashSet::new();
    out.retain(|v| v.major <= MAX_SAFE && v.minor <= MAX_SAFE && v.patch <= MAX_SAFE && seen.insert(v.text()));
    out
}
