//! Observation of crate state: bounds of a Range (hook H1, or parsed back from Display when
//! the hook is unavailable), panic capture at the API boundary.

use crate::interval::*;
use crate::mv::*;
use nodejs_semver::Range;
use std::cell::RefCell;
use std::panic::{self, AssertUnwindSafe};

#[cfg(feature = "hook")]
pub const OBSERVATION: &str = "hook H1 Range::verif_bounds()";
#[cfg(not(feature = "hook"))]
pub const OBSERVATION: &str = "display-fallback (hook did not compile)";

#[cfg(feature = "hook")]
fn end_from(e: &nodejs_semver::VerifEnd) -> End {
    match e {
        nodejs_semver::VerifEnd::Unbounded => End::Unb,
        nodejs_semver::VerifEnd::Including(v) => End::Inc(MV::from_crate(v)),
        nodejs_semver::VerifEnd::Excluding(v) => End::Exc(MV::from_crate(v)),
    }
}

/// Bounds of a range as stored. `Err` = shape invariant broken (a lower slot holding an upper
/// bound or vice versa) — reported by the caller as a violation of whatever produced the range.
#[cfg(feature = "hook")]
pub fn bounds(r: &Range) -> Result<Bs, String> {
    let mut out = vec![];
    for iv in r.verif_bounds() {
        if !iv.lower_is_lower || !iv.upper_is_upper {
            return Err(format!("shape invariant broken: {:?}", iv));
        }
        out.push(Iv { lo: end_from(&iv.lower), hi: end_from(&iv.upper) });
    }
    Ok(Bs(out))
}

#[cfg(not(feature = "hook"))]
pub fn bounds(r: &Range) -> Result<Bs, String> {
    let t = r.to_string();
    display_bounds(&t).ok_or_else(|| format!("cannot read bounds back from Display {:?}", t))
}

/// Harness-owned reader of the crate's printed range form (`a||b`, each alternative one of
/// `*`, `<=V`, `<V`, `>=V`, `>V`, `V`, `>=V <V` ...). Not a range parser: no desugaring.
pub fn display_bounds(text: &str) -> Option<Bs> {
    let mut out = vec![];
    for alt in text.split("||") {
        let toks: Vec<&str> = alt.split(' ').filter(|t| !t.is_empty()).collect();
        let mut lo = End::Unb;
        let mut hi = End::Unb;
        if toks.is_empty() || toks.len() > 2 {
            return None;
        }
        if toks.len() == 1 && toks[0] == "*" {
            out.push(Iv { lo, hi });
            continue;
        }
        for (i, t) in toks.iter().enumerate() {
            if let Some(v) = t.strip_prefix(">=") {
                if i != 0 {
                    return None;
                }
                lo = End::Inc(parse_canonical(v)?);
            } else if let Some(v) = t.strip_prefix("<=") {
                hi = End::Inc(parse_canonical(v)?);
            } else if let Some(v) = t.strip_prefix('>') {
                if i != 0 {
                    return None;
                }
                lo = End::Exc(parse_canonical(v)?);
            } else if let Some(v) = t.strip_prefix('<') {
                hi = End::Exc(parse_canonical(v)?);
            } else {
                if toks.len() != 1 {
                    return None;
                }
                let v = parse_canonical(t)?;
                lo = End::Inc(v.clone());
                hi = End::Inc(v);
            }
        }
        out.push(Iv { lo, hi });
    }
    Some(Bs(out))
}

// ---------------- panic capture ----------------

#[derive(Clone, Debug)]
pub struct PanicInfo {
    pub message: String,
    /// first frame whose symbol starts with `nodejs_semver::` (call site used in signatures)
    pub site: String,
}

thread_local! {
    static LAST_PANIC: RefCell<Option<PanicInfo>> = RefCell::new(None);
    static BT_BUDGET: RefCell<u32> = RefCell::new(200);
}

fn site_from_backtrace(bt: &str) -> String {
    // lines look like "  12: nodejs_semver::range::BoundSet::difference"
    for line in bt.lines() {
        let l = line.trim();
        if let Some(pos) = l.find(": ") {
            let sym = &l[pos + 2..];
            let sym = sym.trim_start_matches('<');
            if sym.starts_with("nodejs_semver::") {
                // strip generic/closure noise and hashes
                let mut s = sym.to_string();
                if let Some(h) = s.rfind("::h") {
                    if s.len() - h == 19 {
                        s.truncate(h);
                    }
                }
                let s = s.replace("::{{closure}}", "");
                // keep `<nodejs_semver::X as Trait>::f` readable
                return s;
            }
        }
    }
    "unknown".to_string()
}

pub fn install_panic_hook() {
    panic::set_hook(Box::new(|info| {
        let message = if let Some(s) = info.payload().downcast_ref::<&str>() {
            s.to_string()
        } else if let Some(s) = info.payload().downcast_ref::<String>() {
            s.clone()
        } else {
            "non-string panic payload".to_string()
        };
        let loc = info.location().map(|l| format!("{}:{}", l.file(), l.line())).unwrap_or_default();
        let take_bt = BT_BUDGET.with(|b| {
            let mut b = b.borrow_mut();
            if *b > 0 {
                *b -= 1;
                true
            } else {
                false
            }
        });
        let site = if take_bt {
            let bt = std::backtrace::Backtrace::force_capture().to_string(); if std::env::var("VERIF_DEBUG_BT").is_ok() { eprintln!("{}", bt); }
            let s = site_from_backtrace(&bt);
            if s == "unknown" {
                format!("unknown@{}", loc_file(&loc))
            } else {
                s
            }
        } else {
            format!("unknown@{}", loc_file(&loc))
        };
        LAST_PANIC.with(|p| *p.borrow_mut() = Some(PanicInfo { message: format!("{} @ {}", message, loc), site }));
    }));
}

fn loc_file(loc: &str) -> String {
    // keep file name only (line numbers move with every commit)
    let f = loc.split(':').next().unwrap_or("");
    f.rsplit('/').next().unwrap_or(f).to_string()
}

/// Run `f`; a panic becomes `Err(PanicInfo)`.
pub fn guarded<T>(f: impl FnOnce() -> T) -> Result<T, PanicInfo> {
    LAST_PANIC.with(|p| *p.borrow_mut() = None);
    match panic::catch_unwind(AssertUnwindSafe(f)) {
        Ok(v) => Ok(v),
        Err(_) => Err(LAST_PANIC
            .with(|p| p.borrow_mut().take())
            .unwrap_or(PanicInfo { message: "panic (no info)".into(), site: "unknown".into() })),
    }
}

/// Classify a panic message into a stable class (no line numbers, no values).
pub fn message_class(m: &str) -> &'static str {
    let m = m.to_ascii_lowercase();
    if m.contains("unwrap()") && m.contains("none") {
        "unwrap-None"
    } else if m.contains("overflow") {
        "arith-overflow"
    } else if m.contains("char boundary") {
        "char-boundary"
    } else if m.contains("unreachable") || m.contains("should not have been") || m.contains("does not make sense") {
        "unreachable"
    } else if m.contains("out of range") || m.contains("out of bounds") {
        "index-out-of-range"
    } else if m.contains("must be non-negative") {
        "debug-assert-negative"
    } else if m.contains("assertion") {
        "assertion"
    } else {
        "other"
    }
}

/// Display under a width / alignment / fill / sign / zero / alternate format specification: an
/// impl may ignore the specification or pad the *whole* text, but the text itself must stay what
/// `to_string()` gives. Returns a description of the first specification whose output, with the
/// fill stripped from both ends, is not the plain text.
pub fn fmt_spec_mismatch<T: std::fmt::Display>(x: &T) -> Option<String> {
    let plain = x.to_string();
    let w = plain.chars().count();
    let mut outs: Vec<(String, String, char)> = vec![];
    for width in [0usize, w.saturating_sub(1), w, w + 1, w + 9] {
        outs.push((format!("{{:{}}}", width), format!("{:width$}", x, width = width), ' '));
        outs.push((format!("{{:<{}}}", width), format!("{:<width$}", x, width = width), ' '));
        outs.push((format!("{{:>{}}}", width), format!("{:>width$}", x, width = width), ' '));
        outs.push((format!("{{:^{}}}", width), format!("{:^width$}", x, width = width), ' '));
        outs.push((format!("{{:*^{}}}", width), format!("{:*^width$}", x, width = width), '*'));
        outs.push((format!("{{:é>{}}}", width), format!("{:é>width$}", x, width = width), 'é'));
        outs.push((format!("{{:0{}}}", width), format!("{:0width$}", x, width = width), '0'));
    }
    outs.push(("{:+}".into(), format!("{:+}", x), ' '));
    outs.push(("{:#}".into(), format!("{:#}", x), ' '));
    for (spec, out, fill) in outs {
        if out == plain {
            continue;
        }
        // padding outside the text only (a text that itself starts or ends with the fill
        // character is compared through containment of the plain text at the right place)
        let ok = out.len() >= plain.len() && out.contains(&plain) && {
            let at = out.find(&plain).unwrap();
            out[..at].chars().all(|c| c == fill) && out[at + plain.len()..].chars().all(|c| c == fill)
        };
        if !ok {
            return Some(format!("format!(\"{}\", x) = {:?} but to_string() = {:?}", spec, out, plain));
        }
    }
    None
}

/// A `fmt::Write` sink with room for `0` bytes left: writing more fails. Printing into it must
/// not disturb later printing.
pub struct BoundedSink(pub usize);
impl std::fmt::Write for BoundedSink {
    fn write_str(&mut self, s: &str) -> std::fmt::Result {
        if s.len() > self.0 {
            self.0 = 0;
            return Err(std::fmt::Error);
        }
        self.0 -= s.len();
        Ok(())
    }
}

/// Print `first` into sinks that fail after 0, 1 and 3 bytes, then return `second.to_string()`:
/// a Display impl must not carry state from one (failed) call into the next.
pub fn print_after_failed_prints<A: std::fmt::Display, B: std::fmt::Display>(first: &A, second: &B) -> String {
    use std::fmt::Write;
    for room in [0usize, 1, 3] {
        let mut sink = BoundedSink(room);
        let _ = write!(sink, "{}", first);
    }
    second.to_string()
}

/// Deserialize the JSON string `json` (a JSON *string* literal) through every serde_json front
/// end: from_str, from_slice, from_reader, from_value, and from_str of the same string written
/// with an escape (so that no front end can lend a slice of its input). A macro rather than a
/// generic function: the harness has no direct dependency on serde.
#[macro_export]
macro_rules! json_front_ends {
    ($t:ty, $json:expr) => {{
        let json: &str = $json;
        let mut out: Vec<(&'static str, Result<$t, String>)> = vec![];
        out.push(("from_str", serde_json::from_str::<$t>(json).map_err(|e| e.to_string())));
        out.push(("from_slice", serde_json::from_slice::<$t>(json.as_bytes()).map_err(|e| e.to_string())));
        out.push(("from_reader", serde_json::from_reader::<_, $t>(json.as_bytes()).map_err(|e| e.to_string())));
        match serde_json::from_str::<serde_json::Value>(json) {
            Ok(v) => out.push(("from_value", serde_json::from_value::<$t>(v).map_err(|e| e.to_string()))),
            Err(e) => out.push(("from_value", Err(e.to_string()))),
        }
        // escape the first character that may be escaped without changing the string's value
        if let Some(pos) = json.char_indices().skip(1).find(|(_, c)| c.is_ascii() && *c != '"' && *c != '\\').map(|(i, _)| i) {
            let c = json[pos..].chars().next().unwrap();
            let escaped = format!("{}\\u{:04x}{}", &json[..pos], c as u32, &json[pos + 1..]);
            out.push(("from_str(escaped)", serde_json::from_str::<$t>(&escaped).map_err(|e| e.to_string())));
        }
        out
    }};
}
