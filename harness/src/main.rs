mod c06_stages;
mod gen;
mod golden;
mod interval;
mod monitors;
mod mv;
mod observe;
mod rangecheck;
mod rast;
mod rng;
mod runner;
mod setops;
mod vgrammar;
mod vstrings;

use runner::*;
use serde_json::Value;
use std::path::PathBuf;
use std::time::{Duration, Instant};

fn arg_after(args: &[String], flag: &str) -> Option<String> {
    args.iter().position(|a| a == flag).and_then(|i| args.get(i + 1).cloned())
}

fn verif_dir() -> PathBuf {
    std::env::var("VERIF_DIR").map(PathBuf::from).unwrap_or_else(|_| PathBuf::from("/verif"))
}

fn main() {
    let args: Vec<String> = std::env::args().collect();
    if args.len() < 3 {
        eprintln!("usage: verif-harness run|shard|replay <ID> [--tier quick|thorough] [--seed N] ...");
        std::process::exit(2);
    }
    let mode = args[1].as_str();
    let prop = args[2].clone();
    let tier = match arg_after(&args, "--tier").or_else(|| std::env::var("VERIF_TIER").ok()).as_deref() {
        Some("thorough") => Tier::Thorough,
        _ => Tier::Quick,
    };
    let seed: u64 = arg_after(&args, "--seed").or_else(|| std::env::var("VERIF_SEED").ok()).and_then(|s| s.parse().ok()).unwrap_or(1);
    observe::install_panic_hook();
    match mode {
        "shard" => {
            let sh = arg_after(&args, "--shard").unwrap_or_else(|| "0/1".into());
            let mut it = sh.split('/');
            let i: usize = it.next().unwrap().parse().unwrap();
            let n: usize = it.next().unwrap().parse().unwrap();
            let out = PathBuf::from(arg_after(&args, "--out").expect("--out"));
            let mut ctx = Ctx::new(&prop, tier, seed, i, n);
            monitors::run(&prop, &mut ctx);
            write_hashes(&out.with_extension("hashes"), &ctx.case_hashes);
            std::fs::write(&out, ctx.to_json().to_string()).expect("write shard result");
        }
        "lin" => {
            // verif-harness lin <family> <op> <n>   (run under cachegrind by the C06 orchestrator)
            let n: usize = args[4].parse().unwrap();
            monitors::c06::lin_driver(&args[2], &args[3], n);
        }
        "release-slice" => {
            let (n, bad) = monitors::c06::run_release_slice();
            println!("{}", serde_json::json!({"executions": n, "panics": bad}));
        }
        "sanitizer-slice" => {
            // verif-harness sanitizer-slice x <i>/<n>
            let sh = args.get(3).cloned().unwrap_or_else(|| "0/1".into());
            let mut it = sh.split('/');
            let i: usize = it.next().unwrap().parse().unwrap();
            let n: usize = it.next().unwrap().parse().unwrap();
            let (k, bad) = monitors::c06::sanitizer_slice(i, n);
            println!("SLICE-DONE executions={} panics={}", k, bad.len());
            for b in bad {
                println!("SLICE-PANIC {}", b);
            }
        }
        "gen-golden" => {
            golden::gen(&verif_dir().join("golden"));
        }
        "check-golden" => {
            let rep = golden::check_ranges(&verif_dir().join("golden"), usize::MAX).expect("golden");
            println!("ranges={} probe_answers={} ambiguous={} mismatches={}", rep.ranges, rep.probe_answers, rep.ambiguous, rep.mismatches.len());
            for m in &rep.mismatches { println!("  {}", m); }
            let (n, bad) = golden::check_pairs(&verif_dir().join("golden")).expect("pairs");
            println!("pairs={} bad={}", n, bad.len());
            for m in &bad { println!("  {}", m); }
        }
        "run" => {
            let code = orchestrate(&prop, tier, seed);
            std::process::exit(code);
        }
        "replay" => {
            let path = arg_after(&args, "--file").expect("--file");
            let body: Value = serde_json::from_str(&std::fs::read_to_string(&path).expect("read replay")).expect("replay json");
            let tier = if body["tier"].as_str() == Some("thorough") { Tier::Thorough } else { Tier::Quick };
            let seed = body["seed"].as_u64().unwrap_or(1);
            let want_sig = body["signature"].as_str().unwrap_or("").to_string();
            if want_sig.starts_with("superlinear/") {
                // linear-time findings are replayed by re-measuring that family x operation
                let fam = body["witness"]["family"].as_str().unwrap_or("").to_string();
                let op = body["witness"]["op"].as_str().unwrap_or("").to_string();
                let mut m = Merged::new();
                c06_stages::linear_one(&fam, &op, &mut m);
                for v in m.violations.values() {
                    println!("replayed: sig={} detail={}", v.sig, v.detail);
                }
                if m.violations.contains_key(&want_sig) {
                    println!("VIOLATION property={} replay={}", prop, path);
                    std::process::exit(1);
                }
                println!("replay of {} did not reproduce {:?} on the current tree", path, want_sig);
                std::process::exit(0);
            }
            if body["witness"]["_case"].as_u64().is_none() {
                println!("replay file {} has no case index (stage-level finding: {}); re-run the check itself to reproduce", path, want_sig);
                std::process::exit(2);
            }
            let mut ctx = Ctx::new(&prop, tier, seed, 0, 1);
            ctx.replaying = true;
            ctx.replay_target = body["witness"]["_case"].as_u64();
            monitors::run(&prop, &mut ctx);
            let want = body["signature"].as_str().unwrap_or("");
            let mut hit = false;
            for v in ctx.violations.values() {
                println!("replayed: sig={} witness={} detail={}", v.sig, v.witness, v.detail);
                if v.sig == want {
                    hit = true;
                }
            }
            if hit {
                println!("VIOLATION property={} replay={}", prop, path);
                std::process::exit(1);
            } else {
                println!("replay of {} did not reproduce signature {:?} on the current tree ({} cases re-run)", path, want, ctx.evals);
                std::process::exit(0);
            }
        }
        _ => {
            eprintln!("unknown mode {}", mode);
            std::process::exit(2);
        }
    }
}

fn orchestrate(prop: &str, tier: Tier, seed: u64) -> i32 {
    let info = match monitors::info(prop) {
        Some(i) => i,
        None => {
            println!("HARNESS-ERROR: unknown property {}", prop);
            return 2;
        }
    };
    let start = Instant::now();
    let vdir = verif_dir();
    // oracle self-check against frozen answers of real node-semver 7.6.2 (DESIGN §2.7):
    // a mismatch means the *oracle* is wrong; nothing is reported about the crate.
    let uses_range_model = matches!(prop, "C01" | "C02" | "C03" | "C11" | "C13" | "C14");
    let uses_order_model = matches!(prop, "C04" | "C14" | "C16" | "C07" | "C08" | "C09" | "C10" | "C15");
    let mut oracle_note = serde_json::Map::new();
    if uses_range_model {
        match golden::check_ranges(&vdir.join("golden"), usize::MAX) {
            Ok(rep) if rep.mismatches.is_empty() => {
                oracle_note.insert("golden_range_answers_checked".into(), serde_json::json!(rep.probe_answers));
                oracle_note.insert("golden_range_answers_in_ambiguity_zones".into(), serde_json::json!(rep.ambiguous));
            }
            Ok(rep) => {
                println!("HARNESS-ERROR: range model disagrees with frozen node-semver 7.6.2 answers outside the declared zones: {:?}", rep.mismatches);
                return 2;
            }
            Err(e) => {
                println!("HARNESS-ERROR: golden corpus unreadable: {}", e);
                return 2;
            }
        }
    }
    if uses_order_model {
        match golden::check_pairs(&vdir.join("golden")) {
            Ok((n, bad)) if bad.is_empty() => {
                oracle_note.insert("golden_compare_and_diff_answers_checked".into(), serde_json::json!(n));
            }
            Ok((_, bad)) => {
                println!("HARNESS-ERROR: order/diff model disagrees with frozen node-semver 7.6.2 answers: {:?}", bad);
                return 2;
            }
            Err(e) => {
                println!("HARNESS-ERROR: golden corpus unreadable: {}", e);
                return 2;
            }
        }
    }
    let run_dir = vdir.join("target").join("runs").join(format!("{}-{}-{}", prop, tier.name(), std::process::id()));
    let n = monitors::shards_for(prop, tier);
    let wall_cap = Duration::from_secs(tier.pick(15 * 60, 120 * 60));
    let outcomes = run_shards(prop, tier, seed, n, &run_dir, wall_cap, &[]);
    let mut m = Merged::new();
    // shards that died or hung are re-run alone in trace mode, all at once (one process each)
    let traces: std::collections::HashMap<usize, (Option<String>, String)> = std::thread::scope(|sc| {
        let hs: Vec<_> = outcomes
            .iter()
            .filter(|o| o.died.is_some())
            .map(|o| {
                let idx = o.index;
                let rd = &run_dir;
                sc.spawn(move || (idx, trace_shard(prop, tier, seed, idx, n, rd, 0)))
            })
            .collect();
        hs.into_iter().filter_map(|h| h.join().ok()).collect()
    });
    for o in &outcomes {
        if let Some(j) = &o.json {
            m.add_json(j);
            read_hashes(&run_dir.join(format!("shard{}.hashes", o.index)), &mut m.hashes);
        }
        if let Some(d) = &o.died {
            // find the case that killed / hung the shard by re-running it in trace mode
            let (last, how) = traces.get(&o.index).cloned().unwrap_or((None, "trace thread failed".into()));
            let label = last.clone().unwrap_or_else(|| "unknown".into());
            if o.timed_out || how == "hang" {
                if how == "hang" {
                    m.violations.insert(
                        format!("timeout/{}", prop),
                        Violation { sig: format!("timeout/{}", prop), witness: serde_json::json!({"case": label}), detail: format!("shard {} made no progress ({}); re-run alone, this case burned {} CPU seconds without finishing", o.index, d, STALL_CPU_S), count: 1 },
                    );
                } else {
                    *m.inconclusive.entry(format!("shard {} stopped making progress ({}) but finished when re-run alone ({}): machine load, not a verdict", o.index, d, how)).or_insert(0) += 1;
                }
            } else if how.contains("signal: 9") || how.contains("signal: 15") {
                // SIGKILL / SIGTERM come from outside the process (OOM killer, operator, watchdog):
                // never a verdict about the crate
                *m.inconclusive.entry(format!("shard {} was killed from outside ({}; re-run: {}) at case {} — out of memory or operator kill, not a verdict", o.index, d, how, label)).or_insert(0) += 1;
                m.harness_errors.push(format!("shard {} killed from outside ({})", o.index, d));
            } else if how.contains("signal") {
                m.violations.insert(
                    format!("abort/{}", sig_of(&how)),
                    Violation { sig: format!("abort/{}", sig_of(&how)), witness: serde_json::json!({"case": label}), detail: format!("shard {} died ({}), again when re-run alone ({}); stderr: {}", o.index, d, how, o.stderr_tail), count: 1 },
                );
            } else {
                m.harness_errors.push(format!("shard {} failed: {} / retry: {}; stderr tail: {}", o.index, d, how, o.stderr_tail));
            }
        }
    }
    if prop == "C06" {
        c06_stages::run_all(tier, &vdir, &mut m);
    }
    for (k, v) in oracle_note {
        m.extra.insert(k, v);
    }
    let spec = RunSpec {
        prop: prop.to_string(),
        tier,
        seed,
        verif_dir: vdir.clone(),
        rule: info.rule.to_string(),
        floor_classes: info.floor_classes,
        level_text: String::new(),
        assumptions: info.assumptions.iter().map(|s| s.to_string()).collect(),
        nshards: n,
        extra: serde_json::json!({"shards": n}),
    };
    let code = conclude(&spec, &m, start.elapsed().as_secs_f64());
    let _ = std::fs::remove_dir_all(&run_dir);
    code
}

fn sig_of(how: &str) -> String {
    how.split_whitespace().filter(|w| w.chars().all(|c| c.is_ascii_digit())).next().map(|s| format!("signal-{}", s)).unwrap_or_else(|| "signal".into())
}
