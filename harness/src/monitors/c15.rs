//! C15 — range set-algebra identities hold across arbitrary compositions.

use crate::interval::*;
use crate::mv::*;
use crate::observe::*;
use crate::rng::Rng;
use crate::runner::*;
use crate::setops::*;
use nodejs_semver::Range;
use serde_json::json;

pub const RULE: &str = "cases = expression trees of depth <= 3 over intersect/difference with parsed ranges at the leaves (E exhaustive depth-2 trees over the single-interval bound-kind table of a 3-version chain; R random trees over 2-4 leaves from the 6-version table, multi-alternative and prerelease/big-number leaves); every sub-expression is evaluated by the crate and pointwise by the membership model on the leaves' hook-observed bounds, compared on probes around every bound occurring in leaves and results; identities checked directly on crate results: ∩ commutative / associative / idempotent, A∖A=∅, (A∖B)∩B=∅, A=(A∩B)⊎(A∖B), A∖(A∖B)=A∩B; every intermediate prints, re-parses to the same bounds and is accepted as an operand; non-trivial = the tree has depth >= 2 and its value is neither empty nor equal to a leaf; distinct = distinct tree texts";

#[derive(Clone)]
pub enum Expr {
    Leaf(usize),
    And(Box<Expr>, Box<Expr>),
    Minus(Box<Expr>, Box<Expr>),
}

impl Expr {
    fn text(&self, leaves: &[Operand]) -> String {
        match self {
            Expr::Leaf(i) => format!("[{}]", leaves[*i].text),
            Expr::And(a, b) => format!("({} ∩ {})", a.text(leaves), b.text(leaves)),
            Expr::Minus(a, b) => format!("({} ∖ {})", a.text(leaves), b.text(leaves)),
        }
    }
    fn depth(&self) -> usize {
        match self {
            Expr::Leaf(_) => 0,
            Expr::And(a, b) | Expr::Minus(a, b) => 1 + a.depth().max(b.depth()),
        }
    }
    /// upper bound on the number of alternatives of the value (|A∩B| <= |A|·|B|, |A∖B| <= |A|·(1+|B|))
    fn size_bound(&self, leaves: &[Operand]) -> usize {
        match self {
            Expr::Leaf(i) => leaves[*i].b.0.len(),
            Expr::And(a, b) => a.size_bound(leaves).saturating_mul(b.size_bound(leaves)),
            Expr::Minus(a, b) => a.size_bound(leaves).saturating_mul(1 + b.size_bound(leaves)),
        }
    }
    fn member(&self, leaves: &[Operand], v: &MV) -> bool {
        match self {
            Expr::Leaf(i) => leaves[*i].b.contains(v),
            Expr::And(a, b) => a.member(leaves, v) && b.member(leaves, v),
            Expr::Minus(a, b) => a.member(leaves, v) && !b.member(leaves, v),
        }
    }
    /// crate evaluation; None is the empty set and propagates
    fn eval(&self, leaves: &[Operand], inter: &mut Vec<(String, Option<Range>)>) -> Option<Range> {
        let r = match self {
            Expr::Leaf(i) => Some(leaves[*i].range.clone()),
            Expr::And(a, b) => {
                let (x, y) = (a.eval(leaves, inter), b.eval(leaves, inter));
                match (x, y) {
                    (Some(x), Some(y)) => x.intersect(&y),
                    _ => None,
                }
            }
            Expr::Minus(a, b) => {
                let (x, y) = (a.eval(leaves, inter), b.eval(leaves, inter));
                match (x, y) {
                    (Some(x), Some(y)) => x.difference(&y),
                    (Some(x), None) => Some(x),
                    _ => None,
                }
            }
        };
        if !matches!(self, Expr::Leaf(_)) {
            inter.push((self.text(leaves), r.clone()));
        }
        r
    }
}

fn opt_bounds(r: &Option<Range>) -> Result<Bs, String> {
    match r {
        None => Ok(Bs(vec![])),
        Some(r) => bounds(r),
    }
}

pub fn judge_tree(ctx: &mut Ctx, e: &Expr, leaves: &[Operand]) {
    judge_tree_budget(ctx, e, leaves, 400)
}

pub fn judge_tree_budget(ctx: &mut Ctx, e: &Expr, leaves: &[Operand], budget: usize) {
    let text = e.text(leaves);
    ctx.begin(|| format!("C15 {}", text));
    let w = json!({"tree": text});
    // results of set operations have up to |A|·|B| alternatives by definition; trees whose value
    // could exceed the harness budget are not evaluated (the harness, not the crate, would run
    // out of memory when it re-uses a 6 561-alternative intermediate as an operand)
    if e.size_bound(leaves) > budget {
        ctx.skip("tree value may exceed 400 alternatives (harness budget)");
        return;
    }
    let mut inter = vec![];
    let val = match guarded(|| e.eval(leaves, &mut inter)) {
        Ok(v) => v,
        Err(p) => {
            ctx.violation(&format!("panic/{}/{}", p.site, message_class(&p.message)), w, p.message);
            return;
        }
    };
    let mut all_bounds: Vec<Bs> = vec![];
    for (_, r) in &inter {
        match opt_bounds(r) {
            Ok(b) => all_bounds.push(b),
            Err(er) => {
                ctx.violation("shape-invariant", w, er);
                return;
            }
        }
    }
    let mut refs: Vec<&Bs> = leaves.iter().map(|l| &l.b).collect();
    refs.extend(all_bounds.iter());
    let probes = probes_for(&refs);
    let vb = match opt_bounds(&val) {
        Ok(b) => b,
        Err(er) => {
            ctx.violation("shape-invariant", w, er);
            return;
        }
    };
    let shape = tree_shape(e);
    ctx.class(&format!("{}:{}", shape, if val.is_none() { "empty" } else { "nonempty" }));
    let mut inside = 0;
    let mut outside = 0;
    for v in &probes {
        ctx.eval(1);
        let want = e.member(leaves, v);
        let got = vb.contains(v);
        if want {
            inside += 1;
        } else {
            outside += 1;
        }
        if got != want {
            ctx.violation(&format!("pointwise/{}", shape), w, format!("{} = {:?}: version {} within crate result = {}, by set algebra on the leaves = {}", text, val.as_ref().map(|r| r.to_string()), v.text(), got, want));
            return;
        }
        if !v.is_pre() {
            let s = val.as_ref().map(|r| r.satisfies(&v.to_crate())).unwrap_or(false);
            if s != want {
                ctx.violation(&format!("release-sat/{}", shape), w, format!("{}: release {} satisfies crate result = {}, by set algebra = {}", text, v.text(), s, want));
                return;
            }
        }
    }
    if e.depth() >= 2 && inside > 0 && outside > 0 {
        ctx.nontrivial(&text);
    }
    ctx.sample(|| json!({"tree": text, "value": val.as_ref().map(|r| r.to_string()), "probes": probes.len(), "inside": inside}));
    // every intermediate result prints, re-parses to the same bounds and works as an operand
    for ((t, r), b) in inter.iter().zip(all_bounds.iter()) {
        if let Some(r) = r {
            ctx.eval(1);
            let printed = r.to_string();
            match guarded(|| Range::parse(&printed)) {
                Ok(Ok(back)) => {
                    let bb = match bounds(&back) {
                        Ok(x) => x,
                        Err(er) => {
                            ctx.violation("shape-invariant", w.clone(), er);
                            return;
                        }
                    };
                    if let Some(v) = probes.iter().find(|v| bb.contains(v) != b.contains(v)) {
                        let oversize = b.versions().iter().any(|v| v.major > MAX_SAFE || v.minor > MAX_SAFE || v.patch > MAX_SAFE);
                        let shape = if oversize { "bound-above-MAX_SAFE".to_string() } else { shape.clone() };
                        ctx.violation(&format!("reparse-differs/{}", shape), w.clone(), format!("intermediate {} = {:?} re-parses to different bounds at {}", t, printed, v.text()));
                        return;
                    }
                    // the other text entry points must read the printed result the same way
                    match guarded(|| (printed.parse::<Range>(), serde_json::from_str::<Range>(&serde_json::to_string(&printed).unwrap()))) {
                        Ok((Ok(x), Ok(y))) => {
                            if x != back || y != back {
                                ctx.violation(&format!("reparse-entry-points-differ/{}", if x != back { "from_str" } else { "serde" }), w.clone(), format!("intermediate {} = {:?}: Range::parse, str::parse and serde do not read it alike", t, printed));
                                return;
                            }
                        }
                        Ok((x, y)) => {
                            ctx.violation(&format!("reparse-fails/{}", if x.is_err() { "from_str" } else { "serde" }), w.clone(), format!("intermediate {} = {:?} is accepted by Range::parse but not by {}", t, printed, if x.is_err() { "str::parse::<Range>()" } else { "serde" }));
                            return;
                        }
                        Err(p) => {
                            ctx.violation(&format!("panic/{}", p.site), w.clone(), p.message);
                            return;
                        }
                    }
                    // accepted as an operand again
                    if guarded(|| (back.intersect(r).is_some(), back.difference(r).is_none(), back.allows_any(r))).is_err() {
                        ctx.violation(&format!("reparsed-operand-panics/{}", shape), w.clone(), format!("operations on re-parsed {:?} panic", printed));
                        return;
                    }
                }
                Ok(Err(er)) => {
                    let oversize = b.versions().iter().any(|v| v.major > MAX_SAFE || v.minor > MAX_SAFE || v.patch > MAX_SAFE);
                    let shape = if oversize { "bound-above-MAX_SAFE".to_string() } else { shape.clone() };
                    ctx.violation(&format!("reparse-fails/{}", shape), w.clone(), format!("intermediate {} prints as {:?} which does not parse: {}", t, printed, er));
                    return;
                }
                Err(p) => {
                    ctx.violation(&format!("panic/{}", p.site), w.clone(), p.message);
                    return;
                }
            }
        }
    }
}

fn tree_shape(e: &Expr) -> String {
    match e {
        Expr::Leaf(_) => "L".into(),
        Expr::And(a, b) => format!("({}∩{})", tree_shape(a), tree_shape(b)),
        Expr::Minus(a, b) => format!("({}∖{})", tree_shape(a), tree_shape(b)),
    }
}

fn same_set(ctx: &mut Ctx, x: &Option<Range>, y: &Option<Range>, probes: &[MV]) -> Result<Option<MV>, String> {
    let (bx, by) = (opt_bounds(x)?, opt_bounds(y)?);
    for v in probes {
        ctx.eval(1);
        if bx.contains(v) != by.contains(v) {
            return Ok(Some(v.clone()));
        }
        if !v.is_pre() {
            let sx = x.as_ref().map(|r| r.satisfies(&v.to_crate())).unwrap_or(false);
            let sy = y.as_ref().map(|r| r.satisfies(&v.to_crate())).unwrap_or(false);
            if sx != sy {
                return Ok(Some(v.clone()));
            }
        }
    }
    Ok(None)
}

/// the identities of the statement, checked directly on crate results
pub fn judge_identities(ctx: &mut Ctx, a: &Operand, b: &Operand, c: &Operand) {
    ctx.begin(|| format!("C15 identities {} ; {} ; {}", a.text, b.text, c.text));
    let w = json!({"a": a.text, "b": b.text, "c": c.text});
    let and = |x: &Option<Range>, y: &Option<Range>| -> Option<Range> {
        match (x, y) {
            (Some(x), Some(y)) => x.intersect(y),
            _ => None,
        }
    };
    let minus = |x: &Option<Range>, y: &Option<Range>| -> Option<Range> {
        match (x, y) {
            (Some(x), Some(y)) => x.difference(y),
            (Some(x), None) => Some(x.clone()),
            _ => None,
        }
    };
    let (ra, rb, rc) = (Some(a.range.clone()), Some(b.range.clone()), Some(c.range.clone()));
    let res = guarded(|| {
        let ab = and(&ra, &rb);
        let ba = and(&rb, &ra);
        let ab_c = and(&ab, &rc);
        let a_bc = and(&ra, &and(&rb, &rc));
        let aa = and(&ra, &ra);
        let a_minus_a = minus(&ra, &ra);
        let a_minus_b = minus(&ra, &rb);
        let amb_and_b = and(&a_minus_b, &rb);
        let a_minus_amb = minus(&ra, &a_minus_b);
        vec![
            ("commutative", ab.clone(), ba),
            ("associative", ab_c, a_bc),
            ("idempotent", aa, ra.clone()),
            ("A∖A=∅", a_minus_a, None),
            ("(A∖B)∩B=∅", amb_and_b, None),
            ("A∖(A∖B)=A∩B", a_minus_amb, ab.clone()),
            ("partition-left", ab, a_minus_b), // handled specially below
        ]
    });
    let ids = match res {
        Ok(i) => i,
        Err(p) => {
            ctx.violation(&format!("panic/{}/{}", p.site, message_class(&p.message)), w, p.message);
            return;
        }
    };
    let mut bs: Vec<Bs> = vec![];
    for (_, x, y) in &ids {
        for r in [x, y] {
            if let Ok(b) = opt_bounds(r) {
                bs.push(b);
            }
        }
    }
    let mut refs: Vec<&Bs> = vec![&a.b, &b.b, &c.b];
    refs.extend(bs.iter());
    let probes = probes_for(&refs);
    let tc = tie_cell(&a.b, &b.b);
    ctx.class(&format!("identities:{}", tc));
    for (name, x, y) in &ids {
        if *name == "partition-left" {
            // A is the disjoint union of A∩B (x) and A∖B (y)
            let (bx, by) = match (opt_bounds(x), opt_bounds(y)) {
                (Ok(p), Ok(q)) => (p, q),
                _ => continue,
            };
            for v in &probes {
                ctx.eval(1);
                let (i, d, ina) = (bx.contains(v), by.contains(v), a.b.contains(v));
                if (i && d) || (ina != (i || d)) {
                    ctx.violation(&format!("identity/partition/{}", tc), w.clone(), format!("version {}: in A = {}, in A∩B = {}, in A∖B = {}", v.text(), ina, i, d));
                    return;
                }
            }
            continue;
        }
        match same_set(ctx, x, y, &probes) {
            Ok(None) => {}
            Ok(Some(v)) => {
                ctx.violation(&format!("identity/{}/{}", name, tc), w.clone(), format!("{}: {:?} vs {:?} differ at {}", name, x.as_ref().map(|r| r.to_string()), y.as_ref().map(|r| r.to_string()), v.text()));
                return;
            }
            Err(e) => {
                ctx.violation("shape-invariant", w.clone(), e);
                return;
            }
        }
    }
}

fn rand_tree(r: &mut Rng, depth: usize, nleaves: usize) -> Expr {
    if depth == 0 || r.chance(1, 5) {
        return Expr::Leaf(r.below(nleaves));
    }
    let a = Box::new(rand_tree(r, depth - 1, nleaves));
    let b = Box::new(rand_tree(r, depth - 1, nleaves));
    if r.chance(1, 2) {
        Expr::And(a, b)
    } else {
        Expr::Minus(a, b)
    }
}

pub fn run(ctx: &mut Ctx) {
    let small = table_operands_parsed(&short_chain());
    let tiv = table_intervals(&chain());
    // exhaustive depth-2 trees: (x op1 y) op2 z and x op2 (y op1 z) over the short-chain table
    let full = ctx.tier == Tier::Thorough;
    ctx.stratum("E-depth2-over-short-chain-table", full);
    let n = small.len();
    let total = (n * n * n) as u64;
    let stride = if full { 1 } else { (total / 6000).max(1) };
    let mut idx = ctx.seed % stride;
    while idx < total {
        if ctx.take() {
            let (i, j, k) = ((idx as usize) / (n * n), ((idx as usize) / n) % n, (idx as usize) % n);
            let leaves = vec![small[i].clone(), small[j].clone(), small[k].clone()];
            let l = |x: usize| Box::new(Expr::Leaf(x));
            for t in [
                Expr::And(Box::new(Expr::And(l(0), l(1))), l(2)),
                Expr::Minus(Box::new(Expr::And(l(0), l(1))), l(2)),
                Expr::And(Box::new(Expr::Minus(l(0), l(1))), l(2)),
                Expr::Minus(Box::new(Expr::Minus(l(0), l(1))), l(2)),
                Expr::Minus(l(0), Box::new(Expr::Minus(l(1), l(2)))),
                Expr::Minus(l(0), Box::new(Expr::And(l(1), l(2)))),
                Expr::And(l(0), Box::new(Expr::Minus(l(1), l(2)))),
            ] {
                judge_tree(ctx, &t, &leaves);
            }
            judge_identities(ctx, &leaves[0], &leaves[1], &leaves[2]);
        }
        idx += stride;
    }
    // directed: the known-finding examples (K3) and the statement's identities on textbook operands
    ctx.stratum("D-directed", true);
    for (a, b, c) in [(">900719925474099.x", ">900719925474099.x", "*"), (">=1.0.0-a", "~>9.900719925474099.99-0.0", "<=0.0.1"), (">=1.0.0", "1.5.0 || 2.0.0", ">1.2.3 <3"), ("<1.2.3", "<=1.2.3", ">=1.2.3")] {
        if ctx.take() {
            if let (Some(x), Some(y), Some(z)) = (operand_from_text(a), operand_from_text(b), operand_from_text(c)) {
                let leaves = vec![x, y, z];
                let l = |i: usize| Box::new(Expr::Leaf(i));
                for t in [Expr::And(l(0), l(1)), Expr::Minus(l(0), l(1)), Expr::Minus(Box::new(Expr::Minus(l(0), l(1))), l(2)), Expr::And(Box::new(Expr::Minus(l(0), l(1))), l(2))] {
                    judge_tree(ctx, &t, &leaves);
                }
                judge_identities(ctx, &leaves[0], &leaves[1], &leaves[2]);
            }
        }
    }
    // long alternative lists as leaves (17..300 alternatives in depth-2 trees, up to 3000 in
    // single operations), evaluated on a 256 KiB stack
    ctx.stratum("L-long-alternative-lists", false);
    let nl = ctx.tier.n(40, 400);
    for i in 0..nl {
        if !ctx.take() {
            continue;
        }
        let mut r = Rng::for_case(ctx.seed, "C15-L", i);
        let a = match long_alt_operand_sized(&mut r, &tiv, 1) {
            Some(a) => a,
            None => continue,
        };
        let (b, c) = if a.b.0.len() > 300 {
            // the tree judge re-reads every intermediate through Display / parse / serde and
            // probes all of them: with thousands of alternatives the partner is one plain window
            // (what this size is for is stack depth and per-alternative bookkeeping, which one
            // window exercises as well as eight)
            match (operand_from_text(">=1.0.100 <1.0.2900"), operand_from_text(">=1.5.0 <1.2000.3")) {
                (Some(b), Some(c)) => (b, c),
                _ => continue,
            }
        } else {
            match (long_partner(&mut r, &a, &tiv), long_partner(&mut r, &a, &tiv)) {
                (Some(b), Some(c)) => (b, c),
                _ => continue,
            }
        };
        let deep = a.b.0.len() <= 300 && b.b.0.len() * c.b.0.len() <= 64;
        let leaves = vec![a, b, c];
        let l = |i: usize| Box::new(Expr::Leaf(i));
        let mut trees = vec![Expr::Minus(l(0), l(1)), Expr::Minus(l(1), l(0)), Expr::And(l(0), l(1)), Expr::And(l(1), l(0))];
        if deep {
            trees.extend([
                Expr::Minus(l(0), Box::new(Expr::Minus(l(0), l(1)))),
                Expr::And(Box::new(Expr::Minus(l(0), l(1))), l(1)),
                Expr::Minus(Box::new(Expr::Minus(l(0), l(1))), l(2)),
                Expr::Minus(l(2), Box::new(Expr::And(l(0), l(1)))),
                Expr::And(Box::new(Expr::And(l(0), l(1))), l(2)),
            ]);
        }
        let done = on_small_stack(|| {
            for t in &trees {
                judge_tree_budget(ctx, t, &leaves, 2_000_000);
            }
        });
        if done.is_none() {
            ctx.inconclusive("small-stack thread ended without a result");
        }
    }
    // bounds that carry build metadata: identities and depth-1/2 trees over the short-chain table
    ctx.stratum("BM-build-metadata-on-bounds", true);
    {
        let pairs = build_metadata_pairs();
        let third = operand_from_text(">=1.0.0-a+q <=1.0.1+r");
        for (i, (a, b)) in pairs.iter().enumerate() {
            if !ctx.take() {
                continue;
            }
            let c = match (i % 3, &third) {
                (0, Some(t)) => t.clone(),
                _ => pairs[(i * 7 + 3) % pairs.len()].1.clone(),
            };
            let leaves = vec![a.clone(), b.clone(), c];
            let l = |i: usize| Box::new(Expr::Leaf(i));
            for t in [Expr::Minus(l(0), l(1)), Expr::And(l(0), l(1)), Expr::Minus(l(0), Box::new(Expr::Minus(l(0), l(1)))), Expr::And(Box::new(Expr::Minus(l(0), l(1))), l(1)), Expr::Minus(Box::new(Expr::And(l(0), l(1))), l(2))] {
                judge_tree(ctx, &t, &leaves);
            }
            judge_identities(ctx, &leaves[0], &leaves[1], &leaves[2]);
        }
    }
    ctx.stratum("R-random-trees", false);
    let nr = ctx.tier.n(20_000, 5_000_000);
    for i in 0..nr {
        if !ctx.take() {
            continue;
        }
        let mut r = Rng::for_case(ctx.seed, "C15-R", i);
        let nl = 2 + r.below(3);
        let mut leaves: Vec<Operand> = vec![];
        for _ in 0..nl {
            let op = if !leaves.is_empty() && r.chance(1, 4) {
                let base = leaves[r.below(leaves.len())].clone();
                neighbour_operand(&mut r, &base)
            } else if r.chance(3, 4) {
                rand_operand(&mut r, &tiv)
            } else {
                rand_free_operand(&mut r)
            };
            if let Some(op) = op {
                leaves.push(op);
            }
        }
        if leaves.len() < 2 {
            continue;
        }
        let t = rand_tree(&mut r, 3, leaves.len());
        judge_tree(ctx, &t, &leaves);
        if leaves.len() >= 3 {
            judge_identities(ctx, &leaves[0], &leaves[1], &leaves[2]);
        }
    }
    let _ = End::Unb;
}
