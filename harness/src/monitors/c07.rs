//! C07 — intersect computes exactly the set intersection.

use crate::interval::*;
use crate::mv::*;
use crate::observe::*;
use crate::rng::Rng;
use crate::runner::*;
use crate::setops::*;
use nodejs_semver::Range;
use serde_json::json;

pub const RULE: &str = "cases = ordered pairs (A,B) of ranges; T exhaustive bound-kind table (every lower kind x upper kind over a 6-version chain incl. a prerelease and the successors, all ordered pairs of single intervals), M multi-alternative / parsed random operands, P random prerelease/big-number bounds, L long alternative lists (17..300 alternatives around 16/32/64/256, some 3000; pins, windows, nested, duplicated, tagged-late; every order) against small partners in both orders on a 256 KiB stack, F results fed back as operands ((A∩B)∩C vs A∩(B∩C)); oracle = pointwise bounds membership from the hook (inb(A∩B,v) = inb(A,v) ∧ inb(B,v)), release/prerelease satisfaction clauses, exact emptiness by the interval model, commutativity and idempotence, on ≈30 probes per bound; non-trivial = operands overlap partially (some probe in both and some probe in exactly one); distinct = distinct operand text pairs";

pub fn judge_pair(ctx: &mut Ctx, a: &Operand, b: &Operand, feedback: Option<&Operand>) -> Option<Operand> {
    ctx.begin(|| format!("C07 {} ∩ {}", a.text, b.text));
    let w = json!({"a": a.text, "b": b.text});
    let tc = tie_cell(&a.b, &b.b);
    // A∩A has |A|² pieces: for long lists the idempotence clause is left to the shorter operands
    let res = match guarded(|| (a.range.intersect(&b.range), b.range.intersect(&a.range), if a.b.0.len() <= 100 { a.range.intersect(&a.range) } else { Some(a.range.clone()) })) {
        Ok(r) => r,
        Err(p) => {
            ctx.violation(&format!("panic/{}/{}", p.site, message_class(&p.message)), w, p.message);
            return None;
        }
    };
    let (i_ab, i_ba, i_aa) = res;
    let obs = |r: &Option<Range>| -> Result<Option<Bs>, String> {
        match r {
            None => Ok(None),
            Some(r) => bounds(r).map(Some),
        }
    };
    let (bi, bj, baa) = match (obs(&i_ab), obs(&i_ba), obs(&i_aa)) {
        (Ok(x), Ok(y), Ok(z)) => (x, y, z),
        (x, y, z) => {
            let e = [x.err(), y.err(), z.err()].into_iter().flatten().next().unwrap();
            ctx.violation(&format!("shape-invariant/{}", tc), w, e);
            return None;
        }
    };
    let mut all: Vec<&Bs> = vec![&a.b, &b.b];
    if let Some(x) = &bi {
        all.push(x);
    }
    if let Some(x) = &bj {
        all.push(x);
    }
    let probes = probes_for(&all);
    let mut both = 0u32;
    let mut one = 0u32;
    let mut viol: Option<(String, String)> = None;
    for v in &probes {
        let (ina, inb_) = (a.b.contains(v), b.b.contains(v));
        let want = ina && inb_;
        if want {
            both += 1;
        } else if ina || inb_ {
            one += 1;
        }
        let ini = bi.as_ref().map(|x| x.contains(v)).unwrap_or(false);
        let inj = bj.as_ref().map(|x| x.contains(v)).unwrap_or(false);
        ctx.eval(1);
        if viol.is_some() {
            continue;
        }
        if ini != want {
            viol = Some((format!("pointwise/{}", tc), format!("{} ∩ {} = {:?}: version {} within result bounds = {}, within A = {}, within B = {}", a.text, b.text, i_ab.as_ref().map(|r| r.to_string()), v.text(), ini, ina, inb_)));
            continue;
        }
        if inj != ini {
            viol = Some((format!("commut/{}", tc), format!("A∩B = {:?} but B∩A = {:?} differ at {}", i_ab.as_ref().map(|r| r.to_string()), i_ba.as_ref().map(|r| r.to_string()), v.text())));
            continue;
        }
        let inaa = baa.as_ref().map(|x| x.contains(v)).unwrap_or(false);
        if inaa != ina {
            viol = Some((format!("idempotent/{}", tie_cell(&a.b, &a.b)), format!("A∩A = {:?} differs from A = {} at {}", i_aa.as_ref().map(|r| r.to_string()), a.range, v.text())));
            continue;
        }
        let (sa, sb) = (sat(&a.range, v), sat(&b.range, v));
        let si = i_ab.as_ref().map(|r| sat(r, v)).unwrap_or(false);
        let sj = i_ba.as_ref().map(|r| sat(r, v)).unwrap_or(false);
        if !v.is_pre() {
            if si != (sa && sb) {
                viol = Some((format!("release-sat/{}", tc), format!("release {}: satisfies result={} A={} B={}", v.text(), si, sa, sb)));
            }
        } else {
            if sa && sb && !si {
                viol = Some((format!("pre-sat-lost/{}", tc), format!("prerelease {} satisfies A and B but not A∩B = {:?}", v.text(), i_ab.as_ref().map(|r| r.to_string()))));
            } else if si && !(ina && inb_ && (sa || sb)) {
                viol = Some((format!("pre-sat-extra/{}", tc), format!("prerelease {} satisfies A∩B = {:?} but inA={} inB={} satA={} satB={}", v.text(), i_ab.as_ref().map(|r| r.to_string()), ina, inb_, sa, sb)));
            }
        }
        if viol.is_none() && si != sj {
            viol = Some((format!("commut-sat/{}", tc), format!("{} satisfies A∩B={} B∩A={}", v.text(), si, sj)));
        }
    }
    // None only if no version lies within both (exact, by the interval model)
    if viol.is_none() && i_ab.is_none() {
        if let Some(wv) = a.b.overlaps(&b.b) {
            viol = Some((format!("none-but-overlap/{}", tc), format!("{} ∩ {} = None although {} lies within both", a.text, b.text, wv.text())));
        }
    }
    ctx.class(&format!("cell:{}", if a.b.0.len() == 1 && b.b.0.len() == 1 { cell(&a.b.0[0], &b.b.0[0]) } else { tc.clone() }));
    if both > 0 && one > 0 {
        ctx.nontrivial(&format!("{}|{}", a.text, b.text));
    }
    ctx.sample(|| json!({"a": a.text, "b": b.text, "intersect": i_ab.as_ref().map(|r| r.to_string()), "probes": probes.len(), "in_both": both, "in_one": one}));
    if let Some((sig, detail)) = viol {
        ctx.violation(&sig, w, detail);
        return None;
    }
    // associativity with a third operand (results fed back)
    if let (Some(c), Some(iab)) = (feedback, &i_ab) {
        let left = guarded(|| iab.intersect(&c.range));
        let right = guarded(|| b.range.intersect(&c.range).and_then(|bc| a.range.intersect(&bc)));
        if let (Ok(l), Ok(r)) = (left, right) {
            let bl = l.as_ref().and_then(|x| bounds(x).ok());
            let br = r.as_ref().and_then(|x| bounds(x).ok());
            let mut bs: Vec<&Bs> = vec![&a.b, &b.b, &c.b];
            if let Some(x) = &bl {
                bs.push(x);
            }
            if let Some(x) = &br {
                bs.push(x);
            }
            for v in probes_for(&bs) {
                ctx.eval(1);
                let want = a.b.contains(&v) && b.b.contains(&v) && c.b.contains(&v);
                let inl = bl.as_ref().map(|x| x.contains(&v)).unwrap_or(false);
                let inr = br.as_ref().map(|x| x.contains(&v)).unwrap_or(false);
                if inl != want || inr != want {
                    ctx.violation(
                        &format!("assoc/{}", tie_cell(&a.b, &b.b)),
                        json!({"a": a.text, "b": b.text, "c": c.text}),
                        format!("(A∩B)∩C = {:?}, A∩(B∩C) = {:?}; version {}: left={} right={} expected={}", l.as_ref().map(|x| x.to_string()), r.as_ref().map(|x| x.to_string()), v.text(), inl, inr, want),
                    );
                    break;
                }
            }
        }
    }
    i_ab.and_then(|r| operand_from_range(r, &format!("({} ∩ {})", a.text, b.text)).ok())
}

pub fn run(ctx: &mut Ctx) {
    let table = table_operands(&chain());
    let tiv = table_intervals(&chain());
    ctx.stratum("T-bound-kind-table", true);
    for a in &table {
        for b in &table {
            if ctx.take() {
                judge_pair(ctx, a, b, None);
            }
        }
    }
    ctx.stratum("M-multi-alternative", false);
    let n = ctx.tier.n(40_000, 4_000_000);
    for i in 0..n {
        if ctx.take() {
            let mut r = Rng::for_case(ctx.seed, "C07-M", i);
            if let (Some(a), Some(b)) = (rand_operand(&mut r, &tiv), rand_operand(&mut r, &tiv)) {
                let c = if r.chance(1, 2) { rand_operand(&mut r, &tiv) } else { None };
                if let Some(res) = judge_pair(ctx, &a, &b, c.as_ref()) {
                    // result fed back as an operand
                    if let Some(c) = c {
                        judge_pair(ctx, &res, &c, None);
                    }
                }
            }
        }
    }
    // second operand built from the boundary probes of the first one's bounds
    ctx.stratum("N-neighbour-operands", false);
    let n = ctx.tier.n(30_000, 3_000_000);
    for i in 0..n {
        if ctx.take() {
            let mut r = Rng::for_case(ctx.seed, "C07-N", i);
            let a = if r.chance(1, 2) { rand_operand(&mut r, &tiv) } else { rand_free_operand(&mut r) };
            if let Some(a) = a {
                if let Some(b) = neighbour_operand(&mut r, &a) {
                    judge_pair(ctx, &a, &b, None);
                judge_pair(ctx, &b, &a, None);
                }
            }
        }
    }
    // bounds that carry build metadata (different on the two sides, on one side only, equal):
    // the short-chain table, all ordered pairs
    ctx.stratum("BM-build-metadata-on-bounds", true);
    for (a, b) in &build_metadata_pairs() {
        if ctx.take() {
            judge_pair(ctx, a, b, None);
        }
    }
    // long alternative lists (17..300, some 3000) against small partners, both orders, run
    // on a 256 KiB stack: counts around 16/32/64/256 and stack depth following the list length
    ctx.stratum("L-long-alternative-lists", false);
    let n = ctx.tier.n(60, 500);
    for i in 0..n {
        if ctx.take() {
            let mut r = Rng::for_case(ctx.seed, "C07-L", i);
            if let Some(a) = long_alt_operand(&mut r, &tiv, true) {
                if let Some(b) = long_partner(&mut r, &a, &tiv) {
                    let done = on_small_stack(|| {
                        judge_pair(ctx, &a, &b, None);
                        judge_pair(ctx, &b, &a, None);
                    });
                    if done.is_none() {
                        ctx.inconclusive("small-stack thread ended without a result");
                    }
                }
            }
        }
    }
    ctx.stratum("P-prerelease-and-big-bounds", false);
    let n = ctx.tier.n(20_000, 2_000_000);
    for i in 0..n {
        if ctx.take() {
            let mut r = Rng::for_case(ctx.seed, "C07-P", i);
            if let (Some(a), Some(b)) = (rand_free_operand(&mut r), rand_free_operand(&mut r)) {
                judge_pair(ctx, &a, &b, None);
            }
        }
    }
    let _ = mv_eq;
}
