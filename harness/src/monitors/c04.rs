//! C04 — Version precedence is the SemVer total order; Eq, Ord and Hash agree.

use crate::gen::*;
use crate::mv::*;
use crate::observe::guarded;
use crate::rng::Rng;
use crate::runner::*;
use crate::setops::on_small_stack;
use nodejs_semver::Version;
use serde_json::json;
use std::cmp::Ordering;
use std::collections::hash_map::DefaultHasher;
use std::collections::BTreeSet;
use std::hash::{Hash, Hasher};

pub const RULE: &str = "cases = ordered pairs / triples / lists of versions; P all ordered pairs of a pool (tuples x every identifier list of length <=2 over 16 atoms + longer lists, with and without build metadata), built through the public fields and, where the text parses, also through Version::parse; T sampled triples (transitivity); S sort / sort_unstable / BTreeSet / binary_search / min / max of random sub-lists against the model-sorted list; R random pairs from the large pools; oracle = SemVer §11 order written over identifier text (no integer types, no derive), plus the coherence laws Eq<->Ord<->PartialOrd<->Hash; non-trivial = the pair differs in precedence or differs only in build metadata; distinct = distinct (a,b) texts";

struct Rec(Vec<u8>);
impl Hasher for Rec {
    fn finish(&self) -> u64 {
        0
    }
    fn write(&mut self, b: &[u8]) {
        self.0.extend_from_slice(b);
    }
}

fn hash_stream(v: &Version) -> Vec<u8> {
    let mut r = Rec(vec![]);
    v.hash(&mut r);
    r.0
}

fn hash_default(v: &Version) -> u64 {
    let mut h = DefaultHasher::new();
    v.hash(&mut h);
    h.finish()
}

/// hash through the slice / collection path (`Hash::hash_slice` is a provided method an impl may override)
fn hash_in_slice(v: &Version) -> u64 {
    let mut h = DefaultHasher::new();
    std::slice::from_ref(v).hash(&mut h);
    (v.clone(), 7u8).hash(&mut h);
    h.finish()
}

fn id_kind(s: &str) -> &'static str {
    if all_digits(s) {
        "num"
    } else {
        "alpha"
    }
}

fn diff_class(a: &MV, b: &MV) -> String {
    if a.major != b.major {
        return "major".into();
    }
    if a.minor != b.minor {
        return "minor".into();
    }
    if a.patch != b.patch {
        return "patch".into();
    }
    match (a.is_pre(), b.is_pre()) {
        (false, false) => return if a.build != b.build { "build-only".into() } else { "identical".into() },
        (true, false) | (false, true) => return "release-vs-pre".into(),
        _ => {}
    }
    for i in 0..a.pre.len().max(b.pre.len()) {
        match (a.pre.get(i), b.pre.get(i)) {
            (Some(x), Some(y)) if x == y => continue,
            (Some(x), Some(y)) => {
                let extra = if x.eq_ignore_ascii_case(y) {
                    "/case-only"
                } else if x.replace('-', "") == y.replace('-', "") {
                    "/hyphen-only"
                } else {
                    ""
                };
                return format!("id{}:{}-{}{}", i.min(3), id_kind(x), id_kind(y), extra);
            }
            _ => return format!("prefix@{}", i.min(3)),
        }
    }
    if a.build != b.build {
        "build-only".into()
    } else {
        "identical".into()
    }
}

fn judge_pair(ctx: &mut Ctx, a: &MV, b: &MV, ca: &Version, cb: &Version, how: &str) {
    ctx.begin(|| format!("C04 cmp {} {}", a.text(), b.text()));
    let want = cmp_mv(a, b);
    let cls = diff_class(a, b);
    ctx.eval(1);
    ctx.class(&format!("{}:{}", how, cls));
    if want != Ordering::Equal || cls == "build-only" {
        ctx.nontrivial(&format!("{} {}", a.text(), b.text()));
    }
    let w = json!({"a": a.text(), "b": b.text(), "built": how});
    let got = match guarded(|| (ca.cmp(cb), cb.cmp(ca), ca.partial_cmp(cb), ca == cb, ca != cb, ca < cb, ca <= cb, ca > cb, ca >= cb)) {
        Ok(g) => g,
        Err(p) => {
            ctx.violation(&format!("panic/{}", p.site), w, p.message);
            return;
        }
    };
    ctx.sample(|| json!({"a": a.text(), "b": b.text(), "model": format!("{:?}", want), "crate": format!("{:?}", got.0)}));
    let (c, rc, pc, eq, ne, lt, le, gt, ge) = got;
    if c != want {
        ctx.violation(&format!("precedence/{}", cls), w, format!("{}.cmp({}) = {:?}, SemVer §11 says {:?}", a.text(), b.text(), c, want));
        return;
    }
    if rc != c.reverse() {
        ctx.violation(&format!("antisymmetry/{}", cls), w, format!("a.cmp(b)={:?} but b.cmp(a)={:?}", c, rc));
        return;
    }
    if pc != Some(c) {
        ctx.violation(&format!("partial_cmp≠cmp/{}", cls), w, format!("cmp={:?} partial_cmp={:?}", c, pc));
        return;
    }
    if eq != (c == Ordering::Equal) || ne == eq {
        ctx.violation(&format!("eq≠cmp/{}", cls), w, format!("cmp={:?} but == is {} and != is {}", c, eq, ne));
        return;
    }
    if lt != (c == Ordering::Less) || le != (c != Ordering::Greater) || gt != (c == Ordering::Greater) || ge != (c != Ordering::Less) {
        ctx.violation(&format!("operators≠cmp/{}", cls), w, format!("cmp={:?} but < {} <= {} > {} >= {}", c, lt, le, gt, ge));
        return;
    }
    if eq {
        ctx.eval(1);
        if hash_default(ca) != hash_default(cb) || hash_stream(ca) != hash_stream(cb) || hash_in_slice(ca) != hash_in_slice(cb) {
            ctx.violation(&format!("hash≠eq/{}", cls), w, "equal versions hash differently".into());
            return;
        }
    }
    let mx = std::cmp::max(ca, cb);
    let mn = std::cmp::min(ca, cb);
    if (c == Ordering::Less && (mx != cb || mn != ca)) || (c == Ordering::Greater && (mx != ca || mn != cb)) {
        ctx.violation(&format!("minmax/{}", cls), w, "std::cmp::max/min disagree with cmp".into());
        return;
    }
    // the provided methods of Ord taken by value (an impl may override them): the result must
    // be one of the two operands, field for field, and the right one unless they tie
    ctx.eval(1);
    let same = |x: &Version, y: &Version| x.major == y.major && x.minor == y.minor && x.patch == y.patch && x.pre_release == y.pre_release && x.build == y.build;
    match guarded(|| (ca.clone().max(cb.clone()), ca.clone().min(cb.clone()), std::cmp::max(ca.clone(), cb.clone()), std::cmp::min(ca.clone(), cb.clone()), ca.clone().clamp(std::cmp::min(ca, cb).clone(), std::cmp::max(ca, cb).clone()))) {
        Err(p) => ctx.violation(&format!("panic/{}", p.site), w, p.message),
        Ok((vmax, vmin, fmax, fmin, clamped)) => {
            let (hi, lo) = if want == Ordering::Greater { (ca, cb) } else { (cb, ca) };
            let ok_hi = |x: &Version| if want == Ordering::Equal { same(x, ca) || same(x, cb) } else { same(x, hi) };
            let ok_lo = |x: &Version| if want == Ordering::Equal { same(x, ca) || same(x, cb) } else { same(x, lo) };
            if !ok_hi(&vmax) || !ok_hi(&fmax) || !ok_lo(&vmin) || !ok_lo(&fmin) {
                ctx.violation(&format!("minmax-by-value/{}", cls), w, format!("a.max(b) = {}, a.min(b) = {}, std::cmp::max = {}, std::cmp::min = {}; SemVer order of a vs b is {:?}", vmax, vmin, fmax, fmin, want));
            } else if !same(&clamped, ca) {
                ctx.violation(&format!("clamp/{}", cls), w, format!("a.clamp(min(a,b), max(a,b)) = {} is not a", clamped));
            }
        }
    }
}

pub fn pool(r: &mut Rng, big: bool) -> Vec<MV> {
    let atoms: &[&str] = &["0", "1", "2", "9", "10", "a", "A", "b", "alpha", "-", "a-", "0a", "1a", "-a", "18446744073709551615", "18446744073709551614", "1e5", "2E10", "7e-3", "0x10", "inf", "900719925474099", "v", "dev", "V", "x", "rev"];
    let mut pres: Vec<Vec<String>> = vec![vec![]];
    for x in atoms {
        pres.push(vec![x.to_string()]);
        for y in atoms {
            pres.push(vec![x.to_string(), y.to_string()]);
        }
    }
    for _ in 0..(if big { 400 } else { 60 }) {
        let n = 3 + r.below(2);
        pres.push((0..n).map(|_| r.pick(ID_ATOMS).to_string()).collect());
    }
    let tuples: Vec<(u64, u64, u64)> = if big {
        vec![(0, 0, 0), (0, 0, 1), (0, 1, 0), (1, 0, 0), (1, 0, 1), (1, 1, 0), (1, 2, 3), (2, 0, 0), (10, 0, 0), (1, 10, 0), (1, 2, 10), (MAX_SAFE, MAX_SAFE, MAX_SAFE), (MAX_SAFE, 0, 0), (0, 0, MAX_SAFE), (1 << 32, 1, 1 << 31)]
    } else {
        vec![(0, 0, 0), (1, 0, 0), (1, 0, 1), (1, 1, 0), (2, 0, 0), (MAX_SAFE, MAX_SAFE, MAX_SAFE)]
    };
    let mut out = vec![];
    for (i, t) in tuples.iter().enumerate() {
        for (j, p) in pres.iter().enumerate() {
            // thin the cross product deterministically for the later tuples
            if i >= 2 && (i + j) % (if big { 2 } else { 3 }) != 0 {
                continue;
            }
            let mut v = MV::new(t.0, t.1, t.2);
            v.pre = p.clone();
            if (i + j) % 7 == 0 {
                v.build = vec!["b".into(), "1".into()];
            }
            out.push(v);
        }
    }
    out
}

pub fn run(ctx: &mut Ctx) {
    let mut r0 = Rng::new(crate::rng::mix(ctx.seed, "C04-pool", 0));
    let p = pool(&mut r0, ctx.tier == Tier::Thorough);
    let cs: Vec<Version> = p.iter().map(|v| v.to_crate()).collect();
    // parsed twins (only where the text parses; parse itself is C05/C12's subject)
    let parsed: Vec<Option<Version>> = p.iter().map(|v| guarded(|| Version::parse(v.text())).ok().and_then(|r| r.ok())).collect();
    // the other textual entry point (FromStr, which serde's Deserialize also uses)
    let from_str: Vec<Option<Version>> = p.iter().map(|v| guarded(|| v.text().parse::<Version>()).ok().and_then(|r| r.ok())).collect();
    ctx.note("pool size", if ctx.shard == 0 { p.len() as u64 } else { 0 });
    // the parsed twin of every pool version must be precedence-equal to (and Eq with) the twin
    // built through the fields: identifier classification at parse time is part of the order
    ctx.stratum("I-parsed-vs-field-built-twins", true);
    for i in 0..p.len() {
        if !ctx.take() {
            continue;
        }
        for (which, x) in [("parsed-twin", &parsed[i]), ("from-str-twin", &from_str[i])] {
            let x = match x {
                Some(x) => x,
                None => continue,
            };
            ctx.eval(1);
            ctx.class(which);
            if x.cmp(&cs[i]) != Ordering::Equal || x != &cs[i] || x.pre_release != cs[i].pre_release {
                ctx.violation(
                    &format!("precedence/{}/{}", which, p[i].pre.iter().map(|s| if all_digits(s) { "num" } else if s.as_bytes()[0].is_ascii_digit() { "digit-initial" } else { "alpha" }).collect::<Vec<_>>().join(",")),
                    json!({"version": p[i].text()}),
                    format!("{}: text {:?} read as {:?} is not precedence-equal to the same version built from its denoted identifiers {:?}", which, p[i].text(), x, cs[i]),
                );
            }
        }
    }
    // every loose spelling of the same version (v / V prefix, blanks, zero-padded core, tag
    // without its hyphen) must give a version precedence-equal to the field-built twin
    ctx.stratum("IS-loose-spellings-vs-field-built-twins", true);
    for i in 0..p.len() {
        if !ctx.take() {
            continue;
        }
        // spellings that denote exactly p[i] (the shared `spellings()` also emits a zero-padded
        // *core only*, which denotes the release)
        let t0 = p[i].text();
        let core = format!("{}.{}.{}", p[i].major, p[i].minor, p[i].patch);
        let rest = t0[core.len()..].to_string();
        let mut texts = vec![t0.clone(), format!("v{}", t0), format!("V{}", t0), format!("v {}", t0), format!(" {}", t0), format!("{} ", t0), format!("  {}\t", t0), format!("0{}.00{}.0{}{}", p[i].major, p[i].minor, p[i].patch, rest)];
        if p[i].is_pre() && p[i].pre[0].as_bytes()[0].is_ascii_alphabetic() {
            texts.push(format!("{}{}", core, &rest[1..]));
            texts.push(format!("v{}{}", core, &rest[1..]));
        }
        for t in texts {
            for (which, res) in [("spelled-parse", guarded(|| Version::parse(&t))), ("spelled-from-str", guarded(|| t.parse::<Version>()))] {
                if let Ok(Ok(x)) = res {
                    ctx.eval(1);
                    ctx.class(which);
                    if x.cmp(&cs[i]) != Ordering::Equal || x != cs[i] || x.pre_release != cs[i].pre_release {
                        ctx.violation(
                            &format!("precedence/{}/{}", which, p[i].pre.iter().map(|s| if all_digits(s) { "num" } else if s.as_bytes()[0].is_ascii_digit() { "digit-initial" } else { "alpha" }).collect::<Vec<_>>().join(",")),
                            json!({"text": t, "version": p[i].text()}),
                            format!("{}: text {:?} read as {:?} is not precedence-equal to the version it denotes, built from fields: {:?}", which, t, x, cs[i]),
                        );
                    }
                }
            }
        }
    }
    // versions built through the tuple conversions: precedence-equal to (and Eq with) the
    // field-built twin, for every integer type, 3- and 4-tuples
    ctx.stratum("TC-tuple-built-vs-field-built-twins", true);
    if ctx.take() {
        ctx.begin(|| "C04 tuple-built twins".to_string());
        for ma in [0u64, 1, 2] {
            for mi in [0u64, 3] {
                for pa in [0u64, 1, 5, 9] {
                    for d in [None, Some(0u64), Some(1), Some(4), Some(9), Some(10)] {
                        let mut m = MV::new(ma, mi, pa);
                        if let Some(d) = d {
                            m.pre = vec![d.to_string()];
                        }
                        let want = m.to_crate();
                        let built: Vec<(&str, Version)> = match d {
                            None => vec![("u8", Version::from((ma as u8, mi as u8, pa as u8))), ("i8", Version::from((ma as i8, mi as i8, pa as i8))), ("u16", Version::from((ma as u16, mi as u16, pa as u16))), ("i16", Version::from((ma as i16, mi as i16, pa as i16))), ("u32", Version::from((ma as u32, mi as u32, pa as u32))), ("i32", Version::from((ma as i32, mi as i32, pa as i32))), ("u64", Version::from((ma, mi, pa))), ("i64", Version::from((ma as i64, mi as i64, pa as i64))), ("usize", Version::from((ma as usize, mi as usize, pa as usize))), ("isize", Version::from((ma as isize, mi as isize, pa as isize)))],
                            Some(d) => vec![("u8", Version::from((ma as u8, mi as u8, pa as u8, d as u8))), ("i8", Version::from((ma as i8, mi as i8, pa as i8, d as i8))), ("u16", Version::from((ma as u16, mi as u16, pa as u16, d as u16))), ("i16", Version::from((ma as i16, mi as i16, pa as i16, d as i16))), ("u32", Version::from((ma as u32, mi as u32, pa as u32, d as u32))), ("i32", Version::from((ma as i32, mi as i32, pa as i32, d as i32))), ("u64", Version::from((ma, mi, pa, d))), ("i64", Version::from((ma as i64, mi as i64, pa as i64, d as i64))), ("usize", Version::from((ma as usize, mi as usize, pa as usize, d as usize))), ("isize", Version::from((ma as isize, mi as isize, pa as isize, d as isize)))],
                        };
                        for (ty, x) in built {
                            ctx.eval(1);
                            ctx.class("tuple-twin");
                            if x.cmp(&want) != Ordering::Equal || x != want || x.pre_release != want.pre_release {
                                ctx.violation(&format!("precedence/tuple-twin/{}/{}", ty, if d.is_some() { 4 } else { 3 }), json!({"version": m.text(), "type": ty}), format!("Version::from(({}-tuple of {})) = {:?} is not precedence-equal to {} built from fields", if d.is_some() { 4 } else { 3 }, ty, x, m.text()));
                            }
                        }
                    }
                }
            }
        }
    }
    ctx.stratum("P-all-pairs-of-pool", true);
    for i in 0..p.len() {
        if !ctx.take() {
            continue;
        }
        for j in 0..p.len() {
            judge_pair(ctx, &p[i], &p[j], &cs[i], &cs[j], "fields");
            if (i + j) % 5 == 0 {
                if let (Some(x), Some(y)) = (&parsed[i], &parsed[j]) {
                    judge_pair(ctx, &p[i], &p[j], x, y, "parsed");
                }
            }
        }
    }
    ctx.stratum("T-triples", false);
    let n = ctx.tier.n(1_000_000, 100_000_000);
    let blocks = n / 1000;
    for blk in 0..blocks {
        if !ctx.take() {
            continue;
        }
        let mut r = Rng::for_case(ctx.seed, "C04-T", blk);
        for _ in 0..1000 {
            let (i, j, k) = (r.below(p.len()), r.below(p.len()), r.below(p.len()));
            ctx.eval(1);
            let (ab, bc, ac) = (cs[i].cmp(&cs[j]), cs[j].cmp(&cs[k]), cs[i].cmp(&cs[k]));
            let le = |o: Ordering| o != Ordering::Greater;
            if le(ab) && le(bc) && !le(ac) || (ab == Ordering::Equal && bc == Ordering::Equal && ac != Ordering::Equal) {
                ctx.violation(
                    &format!("transitivity/{}", diff_class(&p[i], &p[k])),
                    json!({"a": p[i].text(), "b": p[j].text(), "c": p[k].text()}),
                    format!("a<=b ({:?}) and b<=c ({:?}) but a vs c is {:?}", ab, bc, ac),
                );
            }
        }
    }
    ctx.stratum("S-sorting-and-collections", false);
    let n = ctx.tier.n(3_000, 300_000);
    for i in 0..n {
        if !ctx.take() {
            continue;
        }
        let mut r = Rng::for_case(ctx.seed, "C04-S", i);
        let len = 2 + r.below(40);
        let idx: Vec<usize> = (0..len).map(|_| r.below(p.len())).collect();
        let list: Vec<Version> = idx.iter().map(|&k| cs[k].clone()).collect();
        let mut model: Vec<MV> = idx.iter().map(|&k| p[k].clone()).collect();
        model.sort_by(cmp_mv);
        let res = guarded(|| {
            let mut a = list.clone();
            a.sort();
            let mut b = list.clone();
            b.sort_unstable();
            let set: BTreeSet<Version> = list.iter().cloned().collect();
            let mx = list.iter().max().cloned();
            let mn = list.iter().min().cloned();
            let probe = &list[0];
            let found = a.binary_search(probe).is_ok();
            (a, b, set, mx, mn, found)
        });
        ctx.eval(6);
        ctx.class("sorting");
        let w = json!({"list": idx.iter().map(|&k| p[k].text()).collect::<Vec<_>>()});
        match res {
            Err(pn) => ctx.violation(&format!("panic/{}", pn.site), w, pn.message),
            Ok((a, b, set, mx, mn, found)) => {
                let same_order = |xs: &[Version]| xs.iter().zip(model.iter()).all(|(x, m)| cmp_mv(&MV::from_crate(x), m) == Ordering::Equal);
                let mut distinct = model.clone();
                distinct.dedup_by(|x, y| cmp_mv(x, y) == Ordering::Equal);
                if !same_order(&a) {
                    ctx.violation("sort/stable", w, "slice::sort order differs from the model-sorted list".into());
                } else if !same_order(&b) {
                    ctx.violation("sort/unstable", w, "slice::sort_unstable order differs from the model-sorted list".into());
                } else if set.len() != distinct.len() || !set.iter().zip(distinct.iter()).all(|(x, m)| cmp_mv(&MV::from_crate(x), m) == Ordering::Equal) {
                    ctx.violation("sort/btreeset", w, format!("BTreeSet holds {} elements in an order that differs from the {} model classes", set.len(), distinct.len()));
                } else if mx.map(|v| cmp_mv(&MV::from_crate(&v), model.last().unwrap())) != Some(Ordering::Equal) || mn.map(|v| cmp_mv(&MV::from_crate(&v), &model[0])) != Some(Ordering::Equal) {
                    ctx.violation("sort/minmax", w, "Iterator::max/min differ from the model extremes".into());
                } else if !found {
                    ctx.violation("sort/binary_search", w, "binary_search cannot find an element of the sorted list".into());
                }
            }
        }
    }
    // identifier lists of any length: thousands of identifiers (only reachable through the
    // public fields or a range bound; Version::parse stops at MAX_LENGTH), compared on a 256 KiB
    // stack so that recursion following the list length cannot hide behind a large stack
    ctx.stratum("L-long-identifier-lists", true);
    for &n in &[300usize, 3_000, 40_000] {
        for shape in 0..6usize {
            if !ctx.take() {
                continue;
            }
            ctx.begin(|| format!("C04 long identifier lists n={} shape={}", n, shape));
            let atom = |k: usize| -> String {
                match k % 4 {
                    0 => "a".to_string(),
                    1 => (k % 10).to_string(),
                    2 => "rc".to_string(),
                    _ => "0".to_string(),
                }
            };
            let mut x = MV::new(1, 2, 3);
            x.pre = (0..n).map(atom).collect();
            let mut y = x.clone();
            match shape {
                0 => {}                                  // equal lists
                1 => *y.pre.last_mut().unwrap() = "zz".into(), // differ at the very end
                2 => {
                    y.pre.pop(); // strict prefix
                }
                3 => y.pre[n / 2] = "-".into(),           // differ in the middle
                4 => y.pre[0] = "b".into(),               // differ at once
                _ => y.pre.push("0".into()),              // one longer
            }
            let want = cmp_mv(&x, &y);
            let (cx, cy) = (x.to_crate(), y.to_crate());
            ctx.eval(1);
            ctx.class(&format!("long-ids:{}:{}", n, shape));
            if want != Ordering::Equal {
                ctx.nontrivial(&format!("long-ids {} {}", n, shape));
            }
            let got = on_small_stack(|| {
                guarded(|| {
                    let mut v = vec![cy.clone(), cx.clone(), cy.clone()];
                    v.sort();
                    (cx.cmp(&cy), cy.cmp(&cx), cx == cy, hash_default(&cx) == hash_default(&cy), cx.clone().max(cy.clone()) == if want == Ordering::Greater { cx.clone() } else { cy.clone() }, v[0].cmp(&v[2]) != Ordering::Greater)
                })
            });
            let w = json!({"identifiers": n, "shape": shape});
            match got {
                None => ctx.inconclusive("small-stack thread ended without a result"),
                Some(Err(p)) => ctx.violation(&format!("panic/{}", p.site), w, p.message),
                Some(Ok((c1, c2, eq, heq, mx, sorted))) => {
                    if c1 != want || c2 != want.reverse() || eq != (want == Ordering::Equal) || (eq && !heq) || !mx || !sorted {
                        ctx.violation(&format!("precedence/long-lists/shape{}", shape), w, format!("{} identifiers: cmp={:?} reverse={:?} eq={} hash-equal={} max-ok={} sorted-ok={}, SemVer order says {:?}", n, c1, c2, eq, heq, mx, sorted, want));
                    }
                }
            }
        }
    }
    // identifier counts around 16/32/64 (fixed-size scratch space, strategy switches): a list
    // against a copy that differs at one position, is a strict prefix, or is one longer
    ctx.stratum("LI-identifier-counts-around-16-32-64", false);
    let nli = ctx.tier.n(400, 40_000);
    for i in 0..nli {
        if !ctx.take() {
            continue;
        }
        let mut r = Rng::for_case(ctx.seed, "C04-LI", i);
        let n = *r.pick(&[8usize, 15, 16, 17, 31, 32, 33, 63, 64, 65, 70]);
        let mut x = MV::new(1, 2, 3);
        x.pre = (0..n).map(|_| r.pick(&["0", "1", "a", "b", "rc", "10", "-", "x", "00a"]).to_string()).collect();
        let mut y = x.clone();
        match r.below(5) {
            0 => {
                let at = r.below(n);
                y.pre[at] = r.pick(ID_ATOMS).to_string();
            }
            1 => y.pre[n - 1] = r.pick(ID_ATOMS).to_string(),
            2 => {
                y.pre.truncate(n - 1 - r.below(3.min(n - 1)));
            }
            3 => y.pre.push(r.pick(ID_ATOMS).to_string()),
            _ => {
                y.build = vec!["b".into()];
            }
        }
        let (cx, cy) = (x.to_crate(), y.to_crate());
        judge_pair(ctx, &x, &y, &cx, &cy, "fields");
        // the parsed twins, where the text fits MAX_LENGTH
        if let (Ok(Ok(px)), Ok(Ok(py))) = (guarded(|| Version::parse(x.text())), guarded(|| Version::parse(y.text()))) {
            judge_pair(ctx, &x, &y, &px, &py, "parsed");
        }
    }
    // components and numeric identifiers with binary / decimal structure (every 2^k and its
    // neighbours, m·2^s + d, 10^e ± 1 …): each such value X in each position, against the versions
    // a packed or truncated key would confuse it with (carry into the next field, low part only)
    ctx.stratum("P2-structured-numbers", true);
    for &x in structured_numbers().iter().filter(|x| **x <= MAX_SAFE) {
        if !ctx.take() {
            continue;
        }
        let lows: Vec<u64> = vec![0, 1, 5, x & 0xffff_ffff, x & 0xfffff, x >> 20, x >> 32, x.wrapping_sub(1), x + 1];
        let mut vs: Vec<MV> = vec![MV::new(1, 0, 0), MV::new(2, 0, 0), MV::new(3, 0, 0), MV::new(1, 1, 0), MV::new(1, 0, 1), MV::new(x, 0, 0), MV::new(1, x, 0), MV::new(1, 0, x), MV::new(2, x, 0), MV::new(1, x, 1), MV::new(1, 1, x), MV::new(x, x, x)];
        for &l in &lows {
            if l <= MAX_SAFE {
                vs.push(MV::new(1, l, 0));
                vs.push(MV::new(1, 0, l));
                vs.push(MV::new(l, 0, 0));
                vs.push(MV::new(1, 1, l));
                vs.push(MV::new(2, l, 0));
            }
        }
        let cv: Vec<Version> = vs.iter().map(|v| v.to_crate()).collect();
        for i in 0..vs.len() {
            for j in 0..vs.len() {
                judge_pair(ctx, &vs[i], &vs[j], &cv[i], &cv[j], "fields");
            }
        }
    }
    // the same numbers as numeric prerelease identifiers (below 2^64, not only below MAX_SAFE)
    for &x in structured_numbers().iter() {
        if !ctx.take() {
            continue;
        }
        let ids: Vec<u64> = vec![x, x.wrapping_sub(1), x.saturating_add(1), x & 0xffff_ffff, x >> 32, 0, 9];
        let vs: Vec<MV> = ids.iter().map(|i| MV::new(1, 2, 3).with_pre(&["rc", &i.to_string()])).chain(ids.iter().map(|i| MV::new(1, 2, 3).with_pre(&[&i.to_string()]))).collect();
        let cv: Vec<Version> = vs.iter().map(|v| v.to_crate()).collect();
        for i in 0..vs.len() {
            for j in 0..vs.len() {
                judge_pair(ctx, &vs[i], &vs[j], &cv[i], &cv[j], "fields");
            }
        }
    }
    ctx.stratum("R-random-pairs", false);
    let n = ctx.tier.n(300_000, 30_000_000);
    for i in 0..n {
        if !ctx.take() {
            continue;
        }
        let mut r = Rng::for_case(ctx.seed, "C04-R", i);
        let a = rand_version(&mut r, false);
        let mut b = a.clone();
        match r.below(7) {
            0 => b = rand_version(&mut r, false),
            1 => b.pre = rand_ids(&mut r, 4),
            5 | 6 => {
                // long identifier lists that agree on a long prefix
                let n = 5 + r.below(6);
                let base: Vec<String> = (0..n).map(|_| r.pick(ID_ATOMS).to_string()).collect();
                let mut a2 = a.clone();
                a2.pre = base.clone();
                b.pre = base;
                match r.below(3) {
                    0 => {
                        let k = r.below(b.pre.len());
                        b.pre[k] = r.pick(ID_ATOMS).to_string();
                    }
                    1 => {
                        b.pre.push(r.pick(ID_ATOMS).to_string());
                    }
                    _ => {
                        let last = b.pre.len() - 1;
                        b.pre[last] = r.pick(ID_ATOMS).to_string();
                    }
                }
                judge_pair(ctx, &a2, &b, &a2.to_crate(), &b.to_crate(), "fields");
                continue;
            }
            2 => b.build = rand_ids(&mut r, 2),
            3 => {
                if let Some(l) = b.pre.last_mut() {
                    *l = r.pick(ID_ATOMS).to_string();
                }
            }
            _ => {
                if !b.pre.is_empty() {
                    let k = r.below(b.pre.len());
                    b.pre.truncate(k);
                }
            }
        }
        judge_pair(ctx, &a, &b, &a.to_crate(), &b.to_crate(), "fields");
    }
}
