//! C01 — range satisfaction follows npm's documented desugaring.

use crate::mv::*;
use crate::rangecheck::*;
use crate::rast::*;
use crate::rng::Rng;
use crate::runner::*;
use serde_json::{json, Value};

pub const RULE: &str = "cases = (range text rendered from a generated AST) judged on a boundary-directed probe set of versions (≈30 per bound of model and crate) against the documented npm desugaring of the AST; strata: D directed literals, E1 every operator x partial shape x numbers {0,1,2} (exhaustive), E3 every hyphen shape pair (exhaustive), E2 pairs of E1 comparators as `a b` and `a || b`, R seeded random ASTs with loose spellings and garbage tokens, LL long `||` lists of 17..300 alternatives (pins observable only through their own alternative), LS one alternative of 17..70 nested comparators in any order, B components at MAX_SAFE_INTEGER; a case is non-trivial when its probe set contains both admitted and rejected versions; distinct = distinct range texts";

fn witness(ast: &RangeAst, sp: &Spelling, text: &str, m: &Mismatch) -> Value {
    json!({"kind": "range-version", "range": text, "plain": ast.plain_text(), "spelling": sp.describe(), "version": m.version.as_ref().map(|v| v.text()), "dir": m.dir})
}

pub fn judge_ast(ctx: &mut Ctx, ast: &RangeAst, sp: &Spelling, class: &str) {
    let text = ast.render(sp);
    ctx.begin(|| format!("C01 range={:?}", text));
    let des = desugar_range(ast);
    let j = judge_text(&text, &des, &[]);
    ctx.eval(j.judged.max(1));
    if j.ambiguous > 0 {
        ctx.note("probe answers skipped in ambiguity zones Z1/Z2", j.ambiguous);
    }
    ctx.class(class);
    if j.admitted > 0 && j.rejected > 0 {
        ctx.nontrivial(&text);
    }
    ctx.sample(|| json!({"range": text, "documented": des.as_ref().map(|d| d.text()), "crate_display": j.crate_display, "probes_judged": j.judged, "admitted": j.admitted, "rejected": j.rejected}));
    if let Some(m) = &j.mismatch {
        let sig = attribute(ast, sp, m);
        ctx.violation(&sig, witness(ast, sp, &text, m), m.detail.clone());
    }
}

pub fn e1_comparators(nums: &[u64]) -> Vec<(Op, Partial)> {
    let mut out = vec![];
    for op in ALL_OPS {
        for shape in SHAPES {
            for p in partials_of_shape(shape, nums) {
                out.push((*op, p.clone()));
                if *shape == "N.N.N" {
                    for tag in ["alpha", "0", "rc.1"] {
                        let mut q = p.clone();
                        q.pre = tag.split('.').map(|s| s.to_string()).collect();
                        out.push((*op, q));
                    }
                }
            }
        }
    }
    out
}

const DIRECTED: &[&str] = &[
    "1.0.0", "1.0.0 - 2.0.0", "1 - 2", "1.0 - 2.0", "1.2 - 3.4.5", "1.2.3 - 3.4", ">=1.0.0", ">1.0.0", "<=2.0.0", "<=2.0", "<2.0.0", "2.3", "2.x", "2.x.x", "1.2.x", "2.*.*", "^0", "^0.1", "^1.0", "^1.2", "^0.0.1", "^0.1.2", "^1.2.3",
    "~1", "~1.0", "~2.4", "~>3.2.1", "~1.1.0", ">=1", ">1", "<1.2", ">1.2", ">1.1.0-beta-10", "0.1.20 || 1.2.4", ">=0.2.3 || <0.0.1", "1.2.x || 2.x", "1.2.3 || >4", "*", "x", ">= 1.0.0", "<\t2.0.0", "^ 1", "~> 1", "~ 1.0",
    "^0.0.1-beta", "~1.2.3-beta", "^1.2.3-beta.4", "1.0.0-alpha - 2.0.0-beta", ">1.0.0-alpha", ">=1.2.3 <4.5.6", "1.2.3 foo", "foo 1.2.3", "~1.y 1.2.3", "1.2.3 ~1.y", ">01.02.03", "~1.2.3beta", "^ 1.2 ^ 1", "=0.7", "=1",
    "^1.0.1", ">=1.0.1 <2.0.0-0", ">=1.2.3 <1.0.0", "<1", ">=1.0.0-a <1", "<=1", "<=1.2",
];

/// Directed literals are given as text; their AST is built by a tiny literal table (not a
/// parser): only texts listed here with their AST are judged.
fn directed_asts() -> Vec<(RangeAst, Spelling)> {
    // build ASTs for the most important literals by hand
    let n = |a: u64| Xr::Num(a);
    let p1 = |a: u64| Partial { comps: vec![n(a)], pre: vec![], build: vec![] };
    let p2 = |a: u64, b: u64| Partial { comps: vec![n(a), n(b)], pre: vec![], build: vec![] };
    let p3 = |a: u64, b: u64, c: u64| Partial { comps: vec![n(a), n(b), n(c)], pre: vec![], build: vec![] };
    let p3p = |a: u64, b: u64, c: u64, pre: &str| Partial { comps: vec![n(a), n(b), n(c)], pre: pre.split('.').map(|s| s.to_string()).collect(), build: vec![] };
    let set = |toks: Vec<(Op, Partial)>| Alt::Set(toks.into_iter().map(|(o, p)| Tok::Cmp(o, p)).collect());
    let plain = Spelling::plain();
    let mut v = vec![];
    let mut add = |alts: Vec<Alt>| v.push((RangeAst { alts }, plain.clone()));
    add(vec![set(vec![(Op::Ge, p3(1, 2, 3)), (Op::Lt, p3(1, 0, 0))])]); // empty conjunction (properties C01/C02)
    add(vec![set(vec![(Op::Lt, p1(1))])]);
    add(vec![set(vec![(Op::Ge, p3p(1, 0, 0, "a")), (Op::Lt, p1(1))])]);
    add(vec![set(vec![(Op::Le, p1(1))])]);
    add(vec![set(vec![(Op::Le, p2(1, 2))])]);
    add(vec![Alt::Hyphen(p1(1), p1(2))]);
    add(vec![Alt::Hyphen(p2(1, 2), p3(3, 4, 5))]);
    add(vec![Alt::Hyphen(p3(1, 2, 3), p2(3, 4))]);
    add(vec![Alt::Hyphen(p3p(1, 0, 0, "alpha"), p3p(2, 0, 0, "beta"))]);
    add(vec![set(vec![(Op::Caret, p3p(0, 0, 1, "beta"))])]);
    add(vec![set(vec![(Op::Tilde, p3p(1, 2, 3, "beta"))])]);
    add(vec![set(vec![(Op::Caret, p3p(1, 2, 3, "beta.4"))])]);
    add(vec![set(vec![(Op::Gt, p3p(1, 1, 0, "beta-10"))])]);
    add(vec![set(vec![(Op::Bare, p3(1, 2, 3))]), set(vec![(Op::Gt, p1(4))])]);
    add(vec![set(vec![(Op::Caret, p2(1, 2)), (Op::Caret, p1(1))])]);
    add(vec![Alt::Set(vec![Tok::Cmp(Op::Bare, p3(1, 2, 3)), Tok::Garbage("foo".into())])]);
    add(vec![Alt::Set(vec![Tok::Garbage("~1.y".into()), Tok::Cmp(Op::Bare, p3(1, 2, 3))])]);
    add(vec![Alt::Set(vec![Tok::Garbage("-".into()), Tok::Cmp(Op::Bare, p1(10))])]); // loose " - 10"
    add(vec![Alt::Set(vec![Tok::Garbage("foo".into())])]);
    // texts that only look like hyphen ranges: `1 -2` is `1`, `1- 2` is `2`, `1 - 2foo` is `1`
    add(vec![Alt::Set(vec![Tok::Cmp(Op::Bare, p1(1)), Tok::Garbage("-2".into())])]);
    add(vec![Alt::Set(vec![Tok::Garbage("1-".into()), Tok::Cmp(Op::Bare, p1(2))])]);
    add(vec![Alt::Set(vec![Tok::Cmp(Op::Bare, p1(1)), Tok::Garbage("-".into()), Tok::Garbage("2foo".into())])]);
    add(vec![Alt::Set(vec![Tok::Cmp(Op::Bare, p3(1, 2, 3)), Tok::Garbage("-".into()), Tok::Garbage("2.3.4.5".into())])]);
    add(vec![Alt::Set(vec![Tok::Cmp(Op::Bare, p1(1)), Tok::Garbage("-".into())])]);
    add(vec![Alt::Set(vec![Tok::Cmp(Op::Bare, p1(1)), Tok::Garbage("-".into()), Tok::Garbage("2|x".into())])]);
    // every garbage token next to a valid comparator, both orders, and alone in an alternative
    for g in GARBAGE {
        add(vec![Alt::Set(vec![Tok::Garbage(g.to_string()), Tok::Cmp(Op::Ge, p3(1, 2, 3))])]);
        add(vec![Alt::Set(vec![Tok::Cmp(Op::Ge, p3(1, 2, 3)), Tok::Garbage(g.to_string())])]);
        add(vec![Alt::Set(vec![Tok::Cmp(Op::Bare, p3(1, 2, 3))]), Alt::Set(vec![Tok::Garbage(g.to_string())])]);
        add(vec![Alt::Set(vec![Tok::Garbage(g.to_string())])]);
    }
    // loose " - 10" with a leading blank: npm drops the lone "-" and reads "10"
    for p in [p1(10), p2(1, 2), p3(1, 2, 3), p3p(1, 2, 3, "rc.1")] {
        v.push((RangeAst { alts: vec![Alt::Set(vec![Tok::Garbage("-".into()), Tok::Cmp(Op::Bare, p)])] }, Spelling { lead_blank: 1, ..Spelling::plain() }));
    }
    let mut add = |alts: Vec<Alt>| v.push((RangeAst { alts }, plain.clone()));
    add(vec![set(vec![(Op::Caret, p1(0))])]);
    // K4: `^0` has no stored lower bound; visible only next to a `*` alternative (both readings reject)
    add(vec![set(vec![(Op::Bare, Partial { comps: vec![Xr::Wild('*')], pre: vec![], build: vec![] })]), set(vec![(Op::Le, p3p(0, 0, 0, "0.0")), (Op::Caret, p1(0))])]);
    // `<x` with an opt-in on 0.0.0 (fixed: b53ee20)
    add(vec![set(vec![(Op::Le, p3p(0, 0, 0, "0")), (Op::Lt, Partial { comps: vec![Xr::Wild('x')], pre: vec![], build: vec![] })])]);
    add(vec![set(vec![(Op::Gt, Partial { comps: vec![Xr::Wild('x')], pre: vec![], build: vec![] })])]);
    add(vec![set(vec![(Op::Gt, Partial { comps: vec![n(1), Xr::Wild('x'), n(3)], pre: vec![], build: vec![] })])]);
    let _ = DIRECTED;
    v
}

pub fn run(ctx: &mut Ctx) {
    let plain = Spelling::plain();
    // D
    ctx.stratum("D-directed", true);
    for (ast, sp) in directed_asts() {
        if ctx.take() {
            judge_ast(ctx, &ast, &sp, "directed");
        }
    }
    // E1
    let e1 = e1_comparators(&[0, 1, 2]);
    ctx.stratum("E1-single-comparators", true);
    for (op, p) in &e1 {
        if ctx.take() {
            let ast = RangeAst::single(*op, p.clone());
            judge_ast(ctx, &ast, &plain, &format!("single:{}", comparator_shape(*op, p)));
        }
    }
    // SP: every operator x shape under each single loose-spelling feature (exhaustive)
    ctx.stratum("SP-every-operator-shape-under-each-spelling", true);
    let features: Vec<(&str, Spelling)> = vec![
        ("blank-after-op", Spelling { op_blanks: 1, ..Spelling::plain() }),
        ("blanks-after-op", Spelling { op_blanks: 3, ..Spelling::plain() }),
        ("tab-after-op", Spelling { op_blanks: 1, tab: true, ..Spelling::plain() }),
        ("v-prefix", Spelling { v_prefix: true, ..Spelling::plain() }),
        ("v-prefix+blank-after-op", Spelling { v_prefix: true, op_blanks: 2, ..Spelling::plain() }),
        ("leading-zero", Spelling { lead_zero: true, ..Spelling::plain() }),
        // components of more than 16 digits are zone Z4 (node's implementation refuses them whatever
        // their value; the README grammar has no such limit): padding stays within 16 digits here
        ("zero-pad-7", Spelling { lead_zero: true, zero_pad: 7, ..Spelling::plain() }),
        ("zero-pad-12", Spelling { lead_zero: true, zero_pad: 12, ..Spelling::plain() }),
        ("hyphenless-pre", Spelling { hyphenless_pre: true, ..Spelling::plain() }),
        ("outer-blanks", Spelling { lead_blank: 2, trail_blank: 1, ..Spelling::plain() }),
        ("all", Spelling { op_blanks: 1, sep_blanks: 2, v_prefix: true, lead_zero: true, hyphenless_pre: true, lead_blank: 1, trail_blank: 1, ..Spelling::plain() }),
    ];
    for (op, p) in e1_comparators(&[0, 1, 2]).iter().filter(|(_, p)| p.comps.iter().filter_map(|c| if let Xr::Num(n) = c { Some(*n) } else { None }).collect::<Vec<_>>().windows(2).all(|w| w[0] != w[1] || w[0] == 0)) {
        for (name, sp) in &features {
            if ctx.take() {
                // alone, and as the second comparator / second alternative (spelling after a separator)
                judge_ast(ctx, &RangeAst::single(*op, p.clone()), sp, &format!("spelling:{}:{}", name, op.name()));
                let lead = Tok::Cmp(Op::Ge, Partial { comps: vec![Xr::Num(0)], pre: vec![], build: vec![] });
                judge_ast(ctx, &RangeAst { alts: vec![Alt::Set(vec![lead.clone(), Tok::Cmp(*op, p.clone())])] }, sp, &format!("spelling2:{}:{}", name, op.name()));
                judge_ast(ctx, &RangeAst { alts: vec![Alt::Set(vec![Tok::Cmp(Op::Bare, Partial::full(&MV::new(9, 9, 9)))]), Alt::Set(vec![Tok::Cmp(*op, p.clone())])] }, sp, &format!("spelling-or:{}:{}", name, op.name()));
            }
        }
    }
    // E3 hyphen
    ctx.stratum("E3-hyphen-shapes", true);
    let mut hy: Vec<Partial> = vec![];
    for shape in SHAPES {
        hy.extend(partials_of_shape(shape, &[0, 1, 2]));
    }
    for tag in ["alpha", "0"] {
        for t in [(0u64, 0u64, 0u64), (1, 0, 0), (1, 2, 0), (2, 2, 2)] {
            hy.push(Partial::full(&MV::new(t.0, t.1, t.2).with_pre_s(tag)));
        }
    }
    for lo in &hy {
        for hi in &hy {
            if ctx.take() {
                let ast = RangeAst { alts: vec![Alt::Hyphen(lo.clone(), hi.clone())] };
                judge_ast(ctx, &ast, &plain, &format!("hyphen:{} - {}", lo.shape(), hi.shape()));
            }
        }
    }
    // E2 pairs
    let full = ctx.tier == Tier::Thorough;
    ctx.stratum("E2-comparator-pairs", full);
    let n = e1.len() as u64;
    let total = n * n;
    let stride = if full { 1 } else { (total / 40_000).max(1) };
    let mut idx = (ctx.seed % stride) as u64;
    while idx < total {
        if ctx.take() {
            let (a, b) = (&e1[(idx / n) as usize], &e1[(idx % n) as usize]);
            let conj = RangeAst { alts: vec![Alt::Set(vec![Tok::Cmp(a.0, a.1.clone()), Tok::Cmp(b.0, b.1.clone())])] };
            judge_ast(ctx, &conj, &plain, &format!("conj:{},{}", a.0.name(), b.0.name()));
            let or = RangeAst { alts: vec![Alt::Set(vec![Tok::Cmp(a.0, a.1.clone())]), Alt::Set(vec![Tok::Cmp(b.0, b.1.clone())])] };
            judge_ast(ctx, &or, &plain, &format!("or:{},{}", a.0.name(), b.0.name()));
        }
        idx += stride;
    }
    // R random
    ctx.stratum("R-random-asts", false);
    let nr = ctx.tier.n(30_000, 3_000_000);
    for i in 0..nr {
        if ctx.take() {
            let mut r = Rng::for_case(ctx.seed, "C01-R", i);
            let nums: &[u64] = if r.chance(1, 2) { &[0, 1, 2, 3] } else { crate::gen::NUMS_POOL };
            let ast = rand_ast(&mut r, nums, true);
            let sp = Spelling::random(&mut r);
            let class = format!("random:alts{}:{}", ast.alts.len(), sp.describe());
            judge_ast(ctx, &ast, &sp, &class);
        }
    }
    // LL long `||` lists: 17..300 alternatives (counts around 16/32/64/256), each a random
    // comparator set; the versions admitted only by a late alternative are among the probes
    ctx.stratum("LL-long-or-lists", false);
    let nl = ctx.tier.n(12, 400);
    for i in 0..nl {
        if ctx.take() {
            let mut r = Rng::for_case(ctx.seed, "C01-LL", i);
            let n = *r.pick(&[17usize, 18, 33, 34, 65, 66, 130, 257, 260, 300]);
            let mut alts = vec![];
            for k in 0..n {
                if r.chance(2, 3) {
                    // a pin on its own tuple: only this alternative admits it
                    let p = Partial::full(&MV::new(10 + k as u64, (k % 3) as u64, (k % 7) as u64));
                    alts.push(Alt::Set(vec![Tok::Cmp(*r.pick(&[Op::Eq, Op::Tilde, Op::Caret]), p)]));
                } else {
                    // any comparator that is bounded above (numeric major <= 3): it cannot admit
                    // the pins, so each pin stays observable
                    let mut p = rand_partial(&mut r, &[0, 1, 2, 3]);
                    while !matches!(p.comps.first(), Some(Xr::Num(_))) {
                        p = rand_partial(&mut r, &[0, 1, 2, 3]);
                    }
                    alts.push(Alt::Set(vec![Tok::Cmp(*r.pick(&[Op::Bare, Op::Eq, Op::Tilde, Op::Caret, Op::Lt, Op::Le]), p)]));
                }
            }
            let ast = RangeAst { alts };
            judge_ast(ctx, &ast, &plain, &format!("long-or:{}", if n > 256 { ">256" } else if n > 64 { "65..256" } else if n > 32 { "33..64" } else { "17..32" }));
        }
    }
    // LS long comparator sets: one alternative of 17..70 space-joined comparators, nested so
    // that the conjunction stays satisfiable, in any order, some of them tagged
    ctx.stratum("LS-long-comparator-sets", false);
    let ns = ctx.tier.n(20, 800);
    for i in 0..ns {
        if ctx.take() {
            let mut r = Rng::for_case(ctx.seed, "C01-LS", i);
            let k = *r.pick(&[17usize, 18, 33, 34, 65, 70]);
            let mut toks = vec![];
            for j in 0..k as u64 {
                let (op, mut v) = match r.below(4) {
                    0 => (Op::Ge, MV::new(1, 0, j)),
                    1 => (Op::Gt, MV::new(1, 0, j)),
                    2 => (Op::Lt, MV::new(3, 0, 200 - j)),
                    _ => (Op::Le, MV::new(3, 0, 200 - j)),
                };
                if r.chance(1, 5) {
                    v.pre = vec!["rc".into(), (j % 3).to_string()];
                }
                toks.push(Tok::Cmp(op, Partial::full(&v)));
            }
            match r.below(3) {
                0 => {}
                1 => toks.reverse(),
                _ => r.shuffle(&mut toks),
            }
            let mut alts = vec![Alt::Set(toks)];
            if r.chance(1, 3) {
                alts.push(Alt::Set(vec![Tok::Cmp(Op::Tilde, Partial::full(&MV::new(9, 1, 2)))]));
            }
            judge_ast(ctx, &RangeAst { alts }, &plain, &format!("long-set:{}", if k > 64 { ">64" } else if k > 32 { "33..64" } else { "17..32" }));
        }
    }
    // B big numbers: every operator x shape with MAX_SAFE / MAX_SAFE-1 components
    ctx.stratum("B-big-numbers", true);
    for (op, p) in e1_comparators(&[0, MAX_SAFE - 1, MAX_SAFE]) {
        if ctx.take() {
            let ast = RangeAst::single(op, p.clone());
            judge_ast(ctx, &ast, &plain, &format!("big:{}", comparator_shape(op, &p)));
        }
    }
}

pub fn replay(ctx: &mut Ctx, w: &Value) -> bool {
    // replays are judged from the text + the recorded version only: the model side needs the AST,
    // which is regenerated by running the deterministic strata; here we re-run the whole quick
    // workload restricted to the recorded text.
    let _ = (ctx, w);
    false
}
