//! C11 — min_version returns the least version satisfying the range, or None if none.

use crate::gen::probe_set;
use crate::interval::*;
use crate::mv::*;
use crate::observe::*;
use crate::rast::*;
use crate::rng::Rng;
use crate::runner::*;
use crate::setops::*;
use nodejs_semver::Range;
use serde_json::json;

pub const RULE: &str = "cases = ranges; T every single interval of the bound-kind table (lower kind x upper kind over a 6-version chain with a prerelease and the exact successors: exclusive lower bounds directly under the upper bound), T2 all ordered pairs of table intervals as two alternatives (empty / prerelease-only / unbounded-below alternatives next to non-empty ones, both orders), D directed texts of the statement, R random parsed ranges (C01 generator), S results of set operations; oracle = least admitted version computed from the hook-observed bounds by the candidate-set model (DESIGN Appendix B, exact for the discrete version order), every witness re-confirmed with the crate's own satisfies; clauses: Some(m) ⇒ m satisfies; no lower version satisfies; None ⇒ nothing satisfies; non-trivial = the least satisfying version is not simply the inclusive lower bound of the first alternative; distinct = distinct range texts";

fn lower_kind(b: &Bs) -> String {
    let mut k: Vec<&str> = b.0.iter().map(|i| i.lo.kind()).collect();
    k.dedup();
    k.join("")
}

pub fn judge(ctx: &mut Ctx, op: &Operand) {
    ctx.begin(|| format!("C11 min_version {}", op.text));
    let w = json!({"range": op.text});
    ctx.eval(1);
    let got = match guarded(|| op.range.min_version()) {
        Ok(g) => g.map(|v| MV::from_crate(&v)),
        Err(p) => {
            ctx.violation(&format!("panic/{}/{}", p.site, message_class(&p.message)), w, p.message);
            return;
        }
    };
    let expected = op.b.least_admitted();
    // position of the model's least version relative to the bounds (coverage + signature)
    let mut lk = "-".to_string();
    let how = match &expected {
        None => "nothing-admitted".to_string(),
        Some(e) => {
            let which = op.b.0.iter().position(|i| i.admits(e)).unwrap_or(0);
            let iv = &op.b.0[which];
            lk = iv.lo.kind().to_string();
            let rel = match &iv.lo {
                End::Unb => {
                    if e.is_pre() {
                        "unbounded/prerelease-only"
                    } else {
                        "unbounded/zero"
                    }
                }
                End::Inc(l) if mv_eq(l, e) => "at-inclusive-lower",
                End::Inc(_) => "above-inclusive-lower",
                End::Exc(l) if mv_eq(&l.succ(), e) => "succ-of-exclusive-lower",
                End::Exc(_) => "above-exclusive-lower",
            };
            format!("{}{}", rel, if which > 0 { "/later-alternative" } else { "" })
        }
    };
    ctx.class(&format!("alts{}:lower{}:{}:{}", op.b.0.len().min(3), lower_kind(&op.b), how, if got.is_some() { "some" } else { "none" }));
    if how != "at-inclusive-lower" {
        ctx.nontrivial(&op.text);
    }
    ctx.sample(|| json!({"range": op.text, "stored": op.range.to_string(), "min_version": got.as_ref().map(|v| v.text()), "model_least": expected.as_ref().map(|v| v.text())}));
    let csat = |v: &MV| op.range.satisfies(&v.to_crate());
    match (&got, &expected) {
        (Some(m), _) if !csat(m) => {
            ctx.violation(&format!("not-satisfying/lower{}/{}", lk, how), w, format!("min_version({}) = {} which does not satisfy the range (least satisfying version: {:?})", op.text, m.text(), expected.as_ref().map(|v| v.text())));
            return;
        }
        (Some(m), Some(e)) if mv_lt(e, m) => {
            if csat(e) {
                ctx.violation(&format!("not-least/lower{}/{}", lk, how), w, format!("min_version({}) = {} but the lower version {} satisfies the range", op.text, m.text(), e.text()));
            } else {
                ctx.inconclusive("model witness not confirmed by the crate's own satisfies (bounds/gate matter, not min_version)");
            }
            return;
        }
        (None, Some(e)) => {
            if csat(e) {
                ctx.violation(&format!("none-but-satisfiable/lower{}/{}", lk, how), w, format!("min_version({}) = None but {} satisfies the range", op.text, e.text()));
            } else {
                ctx.inconclusive("model witness not confirmed by the crate's own satisfies (bounds/gate matter, not min_version)");
            }
            return;
        }
        _ => {}
    }
    // every probe below the answer must not satisfy
    if let Some(m) = &got {
        let mut basis = op.b.versions();
        basis.push(m.clone());
        for v in probe_set(&basis) {
            ctx.eval(1);
            if mv_lt(&v, m) && csat(&v) {
                ctx.violation(&format!("not-least/lower{}/probe", lk), w, format!("min_version({}) = {} but probe {} is lower and satisfies", op.text, m.text(), v.text()));
                return;
            }
        }
    } else {
        for v in probe_set(&op.b.versions()) {
            ctx.eval(1);
            if csat(&v) {
                ctx.violation(&format!("none-but-satisfiable/lower{}/probe", lk), w, format!("min_version({}) = None but probe {} satisfies", op.text, v.text()));
                return;
            }
        }
    }
}

/// brute-force validation of the candidate-set model on a closed universe (oracle self-check)
pub fn self_check() -> Result<u64, String> {
    let mut universe: Vec<MV> = vec![];
    let ids = ["0", "1", "a"];
    for ma in 0..2u64 {
        for mi in 0..2u64 {
            for pa in 0..3u64 {
                universe.push(MV::new(ma, mi, pa));
                for a in ids {
                    universe.push(MV::new(ma, mi, pa).with_pre(&[a]));
                    for b in ids {
                        universe.push(MV::new(ma, mi, pa).with_pre(&[a, b]));
                    }
                }
            }
        }
    }
    universe.sort_by(cmp_mv);
    let mut r = Rng::new(777);
    let mut n = 0;
    for _ in 0..20000 {
        let a = r.pick(&universe).clone();
        let b = r.pick(&universe).clone();
        let (l, h) = if mv_le(&a, &b) { (a, b) } else { (b, a) };
        let lo = match r.below(3) {
            0 => End::Unb,
            1 => End::Inc(l),
            _ => End::Exc(l),
        };
        let hi = match r.below(3) {
            0 => End::Unb,
            1 => End::Inc(h),
            _ => End::Exc(h),
        };
        let iv = Iv { lo, hi };
        let brute = universe.iter().find(|v| iv.admits(v)).cloned();
        let model = iv.least_admitted();
        // the model may find versions outside the closed universe (x.0 successors); accept when
        // the brute-force answer is not below the model's and the model's answer is admitted
        match (&brute, &model) {
            (None, None) => {}
            (Some(b), Some(m)) if mv_eq(b, m) => {}
            (Some(b), Some(m)) if mv_lt(m, b) && !universe.iter().any(|u| mv_eq(u, m)) && iv.admits(m) => {}
            (None, Some(m)) if !universe.iter().any(|u| mv_eq(u, m)) && iv.admits(m) => {}
            _ => return Err(format!("least_admitted model disagrees with brute force on {}: brute {:?} model {:?}", iv.text(), brute.map(|v| v.text()), model.map(|v| v.text()))),
        }
        n += 1;
    }
    Ok(n)
}

pub fn run(ctx: &mut Ctx) {
    if ctx.shard == 0 {
        if let Err(e) = self_check() {
            ctx.inconclusive(&format!("ORACLE SELF-CHECK FAILED: {}", e));
            return;
        }
    }
    let tiv = table_intervals(&chain());
    ctx.stratum("D-directed", true);
    for t in [
        ">1.0.0 <1.0.1", "<0.0.0-0 || >=2.0.0", ">1.0.0 <=1.0.1-5", ">1.2.3-b <1.2.3-b.0", "*", "<2", "<0.0.0-beta", "<0.0.1-beta", ">1.0.0", ">1.0.0-0", ">2 || >1.0.0-beta", "<0.0.0-beta >0.0.0-alpha", ">=2.0.0 || <0.0.0-0", ">1.0.0 <1.0.1 || >=3.0.0",
        ">=1.0.0-rc <1.0.0-rc.1", ">0.0.0 <0.0.1-a", ">=0.0.1-a <0.0.1", "<=0.0.0-0", ">1.0.0-a <1.0.0", "1.2.3", "1.2.3-alpha", ">=1.1.1 <2 || >=2.2.2 <3", "^0.0.0", ">0.0.0-0",
    ] {
        if ctx.take() {
            if let Some(op) = operand_from_text(t) {
                judge(ctx, &op);
            }
        }
    }
    ctx.stratum("A-range-any-and-its-results", true);
    if ctx.take() {
        if let Some(any) = any_operand() {
            judge(ctx, &any);
            for t in ["*", ">=1.2.3-a <2", "<1.0.0-a || >2", "1.2.3", "<=1", ">0.0.0-0"] {
                if let Some(o) = operand_from_text(t) {
                    for res in [guarded(|| any.range.intersect(&o.range)), guarded(|| any.range.difference(&o.range)), guarded(|| any.range.intersect(&any.range)), guarded(|| o.range.intersect(&any.range))] {
                        if let Ok(Some(x)) = res {
                            if let Ok(op) = operand_from_range(x, &format!("op(Range::any(), {})", t)) {
                                judge(ctx, &op);
                            }
                        }
                    }
                }
            }
        }
    }
    // bounds whose text is around MAX_LENGTH (a range has no length limit; a version does):
    // the answer and the candidates next to such a bound may not be parseable, which is not
    // a reason to skip them
    ctx.stratum("ML-bounds-around-max-length", true);
    for len in [200usize, 240, 247, 248, 249, 250, 251, 252, 253, 254, 255, 256, 257, 300, 1000] {
        if !ctx.take() {
            continue;
        }
        for tag in ["a".repeat(len), format!("{}.0", "a".repeat(len.saturating_sub(2).max(1))), "7".repeat(len.min(19)) + &".rc".repeat(len / 3)] {
            for t in [
                format!(">1.0.0-{}", tag),
                format!(">=1.0.0-{}", tag),
                format!(">1.0.0-{} <1.0.0-b", tag),
                format!(">=2.0.0 || >1.0.0-{} <1.5.0", tag),
                format!("<1.0.0-{}", tag),
                format!("<=1.0.0-{} >0.9.9", tag),
                format!(">1.0.0-{}+{}", tag, "b".repeat(20)),
            ] {
                if let Some(op) = operand_from_text(&t) {
                    judge(ctx, &op);
                }
            }
        }
    }
    ctx.stratum("T-bound-kind-table", true);
    for iv in &tiv {
        if ctx.take() {
            if let Some(op) = operand_from_text(&iv_text(iv)) {
                judge(ctx, &op);
            }
        }
    }
    ctx.stratum("T2-two-alternatives-both-orders", true);
    for a in &tiv {
        for b in &tiv {
            if ctx.take() {
                if let Some(op) = operand_from_text(&format!("{} || {}", iv_text(a), iv_text(b))) {
                    judge(ctx, &op);
                }
            }
        }
    }
    // the same at the bottom of the order (0.0.0-0, its successor, other prereleases of 0.0.0,
    // 0.0.0, 0.0.1-0): where "nothing is lower" shortcuts live
    ctx.stratum("Z-zero-chain-table-and-pairs", true);
    let ztiv = table_intervals(&zero_chain());
    for a in &ztiv {
        if ctx.take() {
            if let Some(op) = operand_from_text(&iv_text(a)) {
                judge(ctx, &op);
            }
            for b in &ztiv {
                if let Some(op) = operand_from_text(&format!("{} || {}", iv_text(a), iv_text(b))) {
                    judge(ctx, &op);
                }
            }
        }
    }
    ctx.stratum("T3-three-alternatives-all-orders", false);
    let n3 = ctx.tier.n(3_000, 300_000);
    for i in 0..n3 {
        if !ctx.take() {
            continue;
        }
        let mut r = Rng::for_case(ctx.seed, "C11-T3", i);
        let t: Vec<String> = (0..3).map(|_| iv_text(r.pick(&tiv))).collect();
        for o in [[0, 1, 2], [0, 2, 1], [1, 0, 2], [1, 2, 0], [2, 0, 1], [2, 1, 0]] {
            if let Some(op) = operand_from_text(&format!("{} || {} || {}", t[o[0]], t[o[1]], t[o[2]])) {
                judge(ctx, &op);
            }
        }
    }
    ctx.stratum("R-random-parsed-ranges", false);
    let n = ctx.tier.n(60_000, 6_000_000);
    for i in 0..n {
        if !ctx.take() {
            continue;
        }
        let mut r = Rng::for_case(ctx.seed, "C11-R", i);
        let op = if r.chance(1, 2) {
            let nums: &[u64] = if r.chance(2, 3) { &[0, 1, 2] } else { crate::gen::NUMS_POOL };
            operand_from_text(&rand_ast(&mut r, nums, false).plain_text())
        } else {
            rand_free_operand(&mut r)
        };
        if let Some(op) = op {
            judge(ctx, &op);
        }
    }
    // long alternative lists (17..300 alternatives, some 3000), written out and as results
    ctx.stratum("L-long-alternative-lists", false);
    let n = ctx.tier.n(60, 500);
    for i in 0..n {
        if !ctx.take() {
            continue;
        }
        let mut r = Rng::for_case(ctx.seed, "C11-L", i);
        if let Some(a) = long_alt_operand_sized(&mut r, &tiv, 1) {
            let b = long_partner(&mut r, &a, &tiv);
            let done = on_small_stack(|| {
                judge(ctx, &a);
                if let Some(b) = &b {
                    for res in [guarded(|| a.range.intersect(&b.range)), guarded(|| a.range.difference(&b.range))] {
                        if let Ok(Some(x)) = res {
                            if let Ok(op) = operand_from_range(x, &format!("op({}, {})", a.text, b.text)) {
                                judge(ctx, &op);
                            }
                        }
                    }
                }
            });
            if done.is_none() {
                ctx.inconclusive("small-stack thread ended without a result");
            }
        }
    }
    ctx.stratum("S-results-of-set-operations", false);
    let n = ctx.tier.n(20_000, 2_000_000);
    for i in 0..n {
        if !ctx.take() {
            continue;
        }
        let mut r = Rng::for_case(ctx.seed, "C11-S", i);
        if let (Some(a), Some(b)) = (rand_operand(&mut r, &tiv), rand_operand(&mut r, &tiv)) {
            let res = if r.chance(1, 2) { guarded(|| a.range.difference(&b.range)) } else { guarded(|| a.range.intersect(&b.range)) };
            if let Ok(Some(x)) = res {
                if let Ok(op) = operand_from_range(x, &format!("op({}, {})", a.text, b.text)) {
                    judge(ctx, &op);
                }
            }
        }
    }
    let _ = (Range::any, desugar_range);
}
