//! C09 — allows_any is true exactly when the two ranges overlap.

use crate::interval::*;
use crate::observe::*;
use crate::rng::Rng;
use crate::runner::*;
use crate::setops::*;
use serde_json::json;

pub const RULE: &str = "cases = ordered pairs (A,B); T exhaustive bound-kind table (every pair of end kinds at below/equal/above positions, incl. touching endpoints), M multi-alternative / parsed random, L long alternative lists (17..300 alternatives, some 3000) against small partners in both orders on a 256 KiB stack, P random prerelease bounds, H allows_any(=v) against hook bounds for every probe; oracle = allows_any(A,B) == intersect(A,B).is_some() == allows_any(B,A); false ⇒ no version within both (exact interval model); a probe satisfying both ⇒ true; touching at a shared version is an overlap only for (<=v, >=v); non-trivial = the pair has at least one tie (two ends on the same version) or the answer is false; distinct = distinct operand text pairs";

pub fn judge_pair(ctx: &mut Ctx, a: &Operand, b: &Operand) {
    ctx.begin(|| format!("C09 allows_any {} , {}", a.text, b.text));
    let w = json!({"a": a.text, "b": b.text});
    let tc = tie_cell(&a.b, &b.b);
    let (any_ab, any_ba, inter) = match guarded(|| (a.range.allows_any(&b.range), b.range.allows_any(&a.range), a.range.intersect(&b.range).is_some())) {
        Ok(r) => r,
        Err(p) => {
            ctx.violation(&format!("panic/{}/{}", p.site, message_class(&p.message)), w, p.message);
            return;
        }
    };
    ctx.eval(3);
    let model_overlap = a.b.overlaps(&b.b);
    ctx.class(&format!("cell:{}:{}", if a.b.0.len() == 1 && b.b.0.len() == 1 { cell(&a.b.0[0], &b.b.0[0]) } else { tc.clone() }, any_ab));
    if tc != "no-tie" || !any_ab {
        ctx.nontrivial(&format!("{}|{}", a.text, b.text));
    }
    ctx.sample(|| json!({"a": a.text, "b": b.text, "allows_any": any_ab, "intersect_is_some": inter, "model_witness": model_overlap.as_ref().map(|v| v.text())}));
    if any_ab != any_ba {
        ctx.violation(&format!("asymmetric/{}", tc), w, format!("A.allows_any(B)={} but B.allows_any(A)={}", any_ab, any_ba));
        return;
    }
    if any_ab != inter {
        ctx.violation(&format!("any≠intersect/{}", tc), w, format!("allows_any={} but intersect().is_some()={}", any_ab, inter));
        return;
    }
    if !any_ab {
        if let Some(v) = &model_overlap {
            ctx.violation(&format!("false-but-overlap/{}", tc), w, format!("allows_any=false although {} lies within the bounds of both", v.text()));
            return;
        }
    }
    // a version satisfying both forces true
    for v in probes_for(&[&a.b, &b.b]) {
        ctx.eval(1);
        if sat(&a.range, &v) && sat(&b.range, &v) && !any_ab {
            ctx.violation(&format!("false-but-satisfied/{}", tc), w, format!("{} satisfies both but allows_any=false", v.text()));
            return;
        }
    }
    // ranges that merely touch do not overlap: with single intervals, if the model says the
    // bounds share no version *and* the two meeting ends sit on the same version, the answer
    // must be false (`<v` vs `>v`, `<v` vs `>=v`, `<=v` vs `>v`).
    if a.b.0.len() == 1 && b.b.0.len() == 1 && any_ab && model_overlap.is_none() {
        let (x, y) = (&a.b.0[0], &b.b.0[0]);
        let touch = |hi: &End, lo: &End| -> bool {
            match (hi.version(), lo.version()) {
                (Some(h), Some(l)) => crate::mv::mv_eq(h, l),
                _ => false,
            }
        };
        if touch(&x.hi, &y.lo) || touch(&y.hi, &x.lo) {
            ctx.violation(&format!("touching-reported-overlap/{}", tc), w, format!("{} and {} only touch at an excluded endpoint but allows_any=true", a.text, b.text));
        }
    }
}

pub fn run(ctx: &mut Ctx) {
    let table = table_operands(&chain());
    let tiv = table_intervals(&chain());
    ctx.stratum("T-bound-kind-table", true);
    for a in &table {
        for b in &table {
            if ctx.take() {
                judge_pair(ctx, a, b);
            }
        }
    }
    ctx.stratum("H-exact-version-vs-hook-bounds", true);
    for a in &table {
        if ctx.take() {
            for v in probes_for(&[&a.b]) {
                let t = v.no_build().text();
                if let Some(e) = operand_from_text(&t) {
                    ctx.eval(1);
                    let got = guarded(|| a.range.allows_any(&e.range));
                    let want = a.b.contains(&v);
                    match got {
                        Ok(g) if g != want => ctx.violation(
                            &format!("exact-vs-bounds/{}", tie_cell(&a.b, &e.b)),
                            json!({"a": a.text, "b": t}),
                            format!("{}.allows_any({}) = {} but the version is {} the stored bounds", a.text, t, g, if want { "within" } else { "outside" }),
                        ),
                        Err(p) => ctx.violation(&format!("panic/{}", p.site), json!({"a": a.text, "b": t}), p.message),
                        _ => {}
                    }
                }
            }
        }
    }
    ctx.stratum("M-multi-alternative", false);
    let n = ctx.tier.n(60_000, 6_000_000);
    for i in 0..n {
        if ctx.take() {
            let mut r = Rng::for_case(ctx.seed, "C09-M", i);
            if let (Some(a), Some(b)) = (rand_operand(&mut r, &tiv), rand_operand(&mut r, &tiv)) {
                judge_pair(ctx, &a, &b);
            }
        }
    }
    // second operand built from the boundary probes of the first one's bounds
    ctx.stratum("N-neighbour-operands", false);
    let n = ctx.tier.n(30_000, 3_000_000);
    for i in 0..n {
        if ctx.take() {
            let mut r = Rng::for_case(ctx.seed, "C09-N", i);
            let a = if r.chance(1, 2) { rand_operand(&mut r, &tiv) } else { rand_free_operand(&mut r) };
            if let Some(a) = a {
                if let Some(b) = neighbour_operand(&mut r, &a) {
                    judge_pair(ctx, &a, &b);
                }
            }
        }
    }
    // bounds that carry build metadata (different on the two sides, on one side only, equal):
    // the short-chain table, all ordered pairs
    ctx.stratum("BM-build-metadata-on-bounds", true);
    for (a, b) in &build_metadata_pairs() {
        if ctx.take() {
            judge_pair(ctx, a, b);
        }
    }
    // long alternative lists (17..300, some 3000) against small partners, both orders, run
    // on a 256 KiB stack: counts around 16/32/64/256 and stack depth following the list length
    ctx.stratum("L-long-alternative-lists", false);
    let n = ctx.tier.n(60, 500);
    for i in 0..n {
        if ctx.take() {
            let mut r = Rng::for_case(ctx.seed, "C09-L", i);
            if let Some(a) = long_alt_operand(&mut r, &tiv, true) {
                if let Some(b) = long_partner(&mut r, &a, &tiv) {
                    let done = on_small_stack(|| {
                        judge_pair(ctx, &a, &b);
                        judge_pair(ctx, &b, &a);
                    });
                    if done.is_none() {
                        ctx.inconclusive("small-stack thread ended without a result");
                    }
                }
            }
        }
    }
    ctx.stratum("P-prerelease-and-big-bounds", false);
    let n = ctx.tier.n(30_000, 3_000_000);
    for i in 0..n {
        if ctx.take() {
            let mut r = Rng::for_case(ctx.seed, "C09-P", i);
            if let (Some(a), Some(b)) = (rand_free_operand(&mut r), rand_free_operand(&mut r)) {
                judge_pair(ctx, &a, &b);
            }
        }
    }
}
