//! C08 — difference computes exactly the set difference.

use crate::interval::*;
use crate::observe::*;
use crate::rng::Rng;
use crate::runner::*;
use crate::setops::*;
use nodejs_semver::Range;
use serde_json::json;

pub const RULE: &str = "cases = ordered pairs (A,B); T exhaustive bound-kind table of single intervals, TM table interval A against B with 2 alternatives from a 3-version chain (exhaustive: B inside A, touching, overlapping each other, disjoint), M random multi-alternative / parsed operands, P random prerelease/big bounds; oracle = pointwise inb(A∖B,v) = inb(A,v) ∧ ¬inb(B,v) over all alternatives of B (hook bounds), release satisfaction, exact emptiness (None only when nothing of A remains), result disjoint from B, partition with A∩B; non-trivial = B removes part of A but not all (some probe in A∖B and some in A∩B); distinct = distinct operand text pairs";

fn remainder_pattern(a: &Bs, b: &Bs) -> String {
    if a.0.len() != 1 {
        return format!("A-multi/B{}", b.0.len().min(4));
    }
    format!("B{}alts/{}", b.0.len().min(4), tie_cell(a, b))
}

pub fn judge_pair(ctx: &mut Ctx, a: &Operand, b: &Operand) -> Option<Operand> {
    ctx.begin(|| format!("C08 {} \\ {}", a.text, b.text));
    let w = json!({"a": a.text, "b": b.text});
    let pat = remainder_pattern(&a.b, &b.b);
    let (d, i) = match guarded(|| (a.range.difference(&b.range), a.range.intersect(&b.range))) {
        Ok(r) => r,
        Err(p) => {
            ctx.violation(&format!("panic/{}/{}", p.site, message_class(&p.message)), w, p.message);
            return None;
        }
    };
    let obs = |r: &Option<Range>| -> Result<Option<Bs>, String> {
        match r {
            None => Ok(None),
            Some(r) => bounds(r).map(Some),
        }
    };
    let (bd, bi) = match (obs(&d), obs(&i)) {
        (Ok(x), Ok(y)) => (x, y),
        (x, y) => {
            let e = [x.err(), y.err()].into_iter().flatten().next().unwrap();
            ctx.violation(&format!("shape-invariant/{}", pat), w, e);
            return None;
        }
    };
    let mut all: Vec<&Bs> = vec![&a.b, &b.b];
    if let Some(x) = &bd {
        all.push(x);
    }
    let probes = probes_for(&all);
    let (mut kept, mut removed) = (0u32, 0u32);
    let mut viol: Option<(String, String)> = None;
    let ds = d.as_ref().map(|r| r.to_string());
    for v in &probes {
        ctx.eval(1);
        let (ina, inb_) = (a.b.contains(v), b.b.contains(v));
        let want = ina && !inb_;
        if want {
            kept += 1;
        } else if ina {
            removed += 1;
        }
        if viol.is_some() {
            continue;
        }
        let ind = bd.as_ref().map(|x| x.contains(v)).unwrap_or(false);
        if ind != want {
            let clause = if ind && inb_ { "contains-B" } else if ind { "outside-A" } else { "lost" };
            viol = Some((format!("pointwise-{}/{}", clause, pat), format!("{} ∖ {} = {:?}: version {} within result = {}, within A = {}, within B = {}", a.text, b.text, ds, v.text(), ind, ina, inb_)));
            continue;
        }
        if !v.is_pre() {
            let (sa, sb) = (sat(&a.range, v), sat(&b.range, v));
            let sd = d.as_ref().map(|r| sat(r, v)).unwrap_or(false);
            if sd != (sa && !sb) {
                viol = Some((format!("release-sat/{}", pat), format!("release {}: satisfies A∖B={} A={} B={}", v.text(), sd, sa, sb)));
                continue;
            }
        }
        // partition: A = (A∩B) ⊎ (A∖B) on bounds. Judged only when intersect itself is right
        // at v (otherwise that is C07's finding, not C08's).
        let ini = bi.as_ref().map(|x| x.contains(v)).unwrap_or(false);
        if ini == (ina && inb_) && ina != (ini ^ ind) {
            viol = Some((format!("partition/{}", pat), format!("version {}: inA={} in(A∩B)={} in(A∖B)={}", v.text(), ina, ini, ind)));
        }
    }
    if viol.is_none() && d.is_none() {
        if let Some(wv) = a.b.witness_outside(&b.b) {
            viol = Some((format!("none-but-remains/{}", pat), format!("{} ∖ {} = None although {} lies within A and outside B", a.text, b.text, wv.text())));
        }
    }
    ctx.class(&format!("pattern:{}", if a.b.0.len() == 1 && b.b.0.len() == 1 { cell(&a.b.0[0], &b.b.0[0]) } else { pat.clone() }));
    if kept > 0 && removed > 0 {
        ctx.nontrivial(&format!("{}|{}", a.text, b.text));
    }
    ctx.sample(|| json!({"a": a.text, "b": b.text, "difference": ds, "probes": probes.len(), "kept": kept, "removed": removed}));
    if let Some((sig, detail)) = viol {
        ctx.violation(&sig, w, detail);
        return None;
    }
    d.and_then(|r| operand_from_range(r, &format!("({} ∖ {})", a.text, b.text)).ok())
}

pub fn run(ctx: &mut Ctx) {
    let table = table_operands(&chain());
    let tiv = table_intervals(&chain());
    ctx.stratum("T-bound-kind-table", true);
    for a in &table {
        for b in &table {
            if ctx.take() {
                judge_pair(ctx, a, b);
            }
        }
    }
    // B with two alternatives, exhaustive over the short chain
    ctx.stratum("TM-two-alternative-B", true);
    let small = table_intervals(&short_chain());
    let small_ops: Vec<Operand> = small.iter().filter_map(|iv| operand_from_text(&iv_text(iv))).collect();
    let mut twos = vec![];
    for x in &small {
        for y in &small {
            twos.push(format!("{} || {}", iv_text(x), iv_text(y)));
        }
    }
    for a in &small_ops {
        for t in &twos {
            if ctx.take() {
                if let Some(b) = operand_from_text(t) {
                    judge_pair(ctx, a, &b);
                }
            }
        }
    }
    ctx.stratum("M-multi-alternative", false);
    let n = ctx.tier.n(40_000, 4_000_000);
    for i in 0..n {
        if ctx.take() {
            let mut r = Rng::for_case(ctx.seed, "C08-M", i);
            if let (Some(a), Some(b)) = (rand_operand(&mut r, &tiv), rand_operand(&mut r, &tiv)) {
                if let Some(res) = judge_pair(ctx, &a, &b) {
                    // feed the result back: (A∖B)∖C
                    if let Some(c) = rand_operand(&mut r, &tiv) {
                        judge_pair(ctx, &res, &c);
                    }
                }
            }
        }
    }
    // second operand built from the boundary probes of the first one's bounds
    ctx.stratum("N-neighbour-operands", false);
    let n = ctx.tier.n(30_000, 3_000_000);
    for i in 0..n {
        if ctx.take() {
            let mut r = Rng::for_case(ctx.seed, "C08-N", i);
            let a = if r.chance(1, 2) { rand_operand(&mut r, &tiv) } else { rand_free_operand(&mut r) };
            if let Some(a) = a {
                if let Some(b) = neighbour_operand(&mut r, &a) {
                    judge_pair(ctx, &a, &b);
                judge_pair(ctx, &b, &a);
                }
            }
        }
    }
    // bounds that carry build metadata (different on the two sides, on one side only, equal):
    // the short-chain table, all ordered pairs
    ctx.stratum("BM-build-metadata-on-bounds", true);
    for (a, b) in &build_metadata_pairs() {
        if ctx.take() {
            judge_pair(ctx, a, b);
        }
    }
    // long alternative lists (17..300, some 3000) against small partners, both orders, run
    // on a 256 KiB stack: counts around 16/32/64/256 and stack depth following the list length
    ctx.stratum("L-long-alternative-lists", false);
    let n = ctx.tier.n(60, 500);
    for i in 0..n {
        if ctx.take() {
            let mut r = Rng::for_case(ctx.seed, "C08-L", i);
            if let Some(a) = long_alt_operand(&mut r, &tiv, true) {
                if let Some(b) = long_partner(&mut r, &a, &tiv) {
                    let done = on_small_stack(|| {
                        judge_pair(ctx, &a, &b);
                        // subtracting n alternatives from one wide piece is quadratic in n by
                        // construction (every hole is checked against every remaining piece)
                        if a.b.0.len() <= 3000 {
                            judge_pair(ctx, &b, &a);
                        }
                    });
                    if done.is_none() {
                        ctx.inconclusive("small-stack thread ended without a result");
                    }
                }
            }
        }
    }
    ctx.stratum("P-prerelease-and-big-bounds", false);
    let n = ctx.tier.n(20_000, 2_000_000);
    for i in 0..n {
        if ctx.take() {
            let mut r = Rng::for_case(ctx.seed, "C08-P", i);
            if let (Some(a), Some(b)) = (rand_free_operand(&mut r), rand_free_operand(&mut r)) {
                judge_pair(ctx, &a, &b);
            }
        }
    }
}
