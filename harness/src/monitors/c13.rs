//! C13 — printing a range and parsing it back returns an equivalent range.

use crate::interval::*;
use crate::observe::*;
use crate::rast::*;
use crate::rng::Rng;
use crate::runner::*;
use crate::setops::*;
use nodejs_semver::Range;
use serde_json::json;

pub const RULE: &str = "cases = ranges R obtained from Range::parse (every single comparator of the operator x shape table incl. `<=1`, `<=1.2` with MAX_SAFE-filled bounds and `-0` bounds, hyphen shapes, random compound ranges with loose spellings, bound-kind table) and from up to three intersect/difference steps over such ranges; oracle = parse(R.to_string()) succeeds, same satisfies answers and same hook-observed bounds membership on ≈30 probes per bound, equal (==) to R when R came from parse, printing stable after one round, serde JSON is the printed string and reads back equal; non-trivial = the printed form differs from the source text or R came from a set operation; distinct = distinct (source description) of R";

fn shape_of(b: &Bs) -> String {
    let mut s: Vec<String> = b.0.iter().take(2).map(|i| {
        let pre = i.versions().iter().any(|v| v.is_pre());
        let big = i.versions().iter().any(|v| v.minor == crate::mv::MAX_SAFE || v.patch == crate::mv::MAX_SAFE);
        let exact = matches!((&i.lo, &i.hi), (End::Inc(a), End::Inc(b)) if crate::mv::mv_eq(a, b));
        format!("{}{}{}{}{}", i.lo.kind(), i.hi.kind(), if pre { "p" } else { "" }, if big { "M" } else { "" }, if exact { "=" } else { "" })
    }).collect();
    if b.0.len() > 2 {
        s.push("+".into());
    }
    s.join("|")
}

pub fn judge(ctx: &mut Ctx, r: &Range, source: &str, from_parse: bool) {
    ctx.begin(|| format!("C13 roundtrip {}", source));
    let w = json!({"source": source});
    ctx.eval(1);
    let rb = match bounds(r) {
        Ok(b) => b,
        Err(e) => {
            ctx.violation("shape-invariant", w, e);
            return;
        }
    };
    // a bound with a component above MAX_SAFE_INTEGER (`^MAX`, `~1.MAX`, `>1.MAX` need MAX+1)
    // cannot be written in range syntax: one root cause, one signature family
    let oversize = rb.versions().iter().any(|v| v.major > crate::mv::MAX_SAFE || v.minor > crate::mv::MAX_SAFE || v.patch > crate::mv::MAX_SAFE);
    let cls = if oversize { "bound-above-MAX_SAFE".to_string() } else { shape_of(&rb) };
    let printed = match guarded(|| crate::observe::print_after_failed_prints(&Range::any(), r)) {
        Ok(p) => p,
        Err(p) => {
            ctx.violation(&format!("panic/display/{}", p.site), w, p.message);
            return;
        }
    };
    ctx.class(&format!("{}:{}", if from_parse { "parsed" } else { "setop" }, cls));
    if printed.len() < 120 {
        if let Ok(Some(m)) = guarded(|| crate::observe::fmt_spec_mismatch(r)) {
            ctx.violation(&format!("display-under-format-spec/{}", cls), w, m);
            return;
        }
    }
    if !from_parse || printed != source {
        ctx.nontrivial(source);
    }
    ctx.sample(|| json!({"source": source, "printed": printed}));
    // Display is faithful to the stored state
    match display_bounds(&printed) {
        Some(db) => {
            let same = db.0.len() == rb.0.len() && db.0.iter().zip(rb.0.iter()).all(|(x, y)| iv_same(x, y));
            if !same {
                // informational only: the statement is about what the printed text parses back
                // to (judged below), not about the spelling chosen for a stored interval — a
                // printer that writes `>=0.0.0` as `*`, say, is not a violation by itself
                ctx.note("printed form spells a stored interval differently (judged through re-parsing)", 1);
            }
        }
        None => {
            // `*` style or unexpected syntax: only an alarm if the text does not parse back (below)
            ctx.note("printed form not readable by the harness-side Display reader", 1);
        }
    }
    let s = match guarded(|| Range::parse(&printed)) {
        Ok(Ok(s)) => s,
        Ok(Err(e)) => {
            ctx.violation(&format!("reparse-fails/{}", cls), w, format!("{} prints as {:?} which does not parse: {}", source, printed, e));
            return;
        }
        Err(p) => {
            ctx.violation(&format!("panic/reparse/{}", p.site), w, p.message);
            return;
        }
    };
    let sb = match bounds(&s) {
        Ok(b) => b,
        Err(e) => {
            ctx.violation("shape-invariant", w, e);
            return;
        }
    };
    for v in probes_for(&[&rb, &sb]) {
        ctx.eval(1);
        let cv = v.to_crate();
        if r.satisfies(&cv) != s.satisfies(&cv) {
            ctx.violation(&format!("not-equivalent/satisfies/{}", cls), w, format!("{} prints as {:?}; version {}: original satisfies={} re-parsed satisfies={}", source, printed, v.text(), r.satisfies(&cv), s.satisfies(&cv)));
            return;
        }
        if rb.contains(&v) != sb.contains(&v) {
            ctx.violation(&format!("not-equivalent/bounds/{}", cls), w, format!("{} prints as {:?}; version {} within bounds: original {} re-parsed {}", source, printed, v.text(), rb.contains(&v), sb.contains(&v)));
            return;
        }
    }
    if from_parse && &s != r {
        ctx.violation(&format!("not-equal/{}", cls), w, format!("{} parsed, printed as {:?} and re-parsed is != the original ({:?} vs {:?})", source, printed, r, s));
        return;
    }
    // str::parse::<Range>() must read the printed form exactly like Range::parse
    ctx.eval(1);
    match guarded(|| printed.parse::<Range>()) {
        Ok(Ok(f)) => {
            if f != s || f.to_string() != s.to_string() {
                ctx.violation(&format!("from_str-differs/{}", cls), w, format!("{:?} read by str::parse gives {} but Range::parse gives {}", printed, f, s));
                return;
            }
        }
        Ok(Err(e)) => {
            ctx.violation(&format!("from_str-fails/{}", cls), w, format!("{:?} is accepted by Range::parse but str::parse fails: {}", printed, e));
            return;
        }
        Err(p) => {
            ctx.violation(&format!("panic/from_str/{}", p.site), w, p.message);
            return;
        }
    }
    let again = s.to_string();
    if again != printed {
        ctx.violation(&format!("not-fixed-point/{}", cls), w, format!("printed {:?}, re-parsed and printed {:?}", printed, again));
        return;
    }
    ctx.eval(1);
    match guarded(|| serde_json::to_string(r)) {
        Ok(Ok(j)) => {
            if j != serde_json::to_string(&printed).unwrap() {
                ctx.violation(&format!("json/not-printed-string/{}", cls), w, format!("serialized {} but printed form is {:?}", j, printed));
                return;
            }
            match guarded(|| crate::json_front_ends!(Range, &j)) {
                Ok(all) => {
                    for (front, res) in all {
                        match res {
                            Ok(d) => {
                                if d != s {
                                    ctx.violation(&format!("json/differs/{}", cls), w, format!("JSON {} deserializes through {} to {:?}", j, front, d));
                                    return;
                                }
                            }
                            Err(e) => {
                                ctx.violation(&format!("json/deserialize-fails/{}", cls), w, format!("through serde_json::{}: {}", front, e));
                                return;
                            }
                        }
                    }
                }
                Err(p) => ctx.violation(&format!("panic/json/{}", p.site), w, p.message),
            }
        }
        Ok(Err(e)) => ctx.violation(&format!("json/serialize-fails/{}", cls), w, e.to_string()),
        Err(p) => ctx.violation(&format!("panic/json/{}", p.site), w, p.message),
    }
}

fn end_same(a: &End, b: &End) -> bool {
    match (a, b) {
        (End::Unb, End::Unb) => true,
        (End::Inc(x), End::Inc(y)) | (End::Exc(x), End::Exc(y)) => crate::mv::mv_eq(x, y), // build metadata in a bound has no meaning
        _ => false,
    }
}
fn iv_same(a: &Iv, b: &Iv) -> bool {
    end_same(&a.lo, &b.lo) && end_same(&a.hi, &b.hi)
}

fn from_text(ctx: &mut Ctx, t: &str) {
    if let Ok(Ok(r)) = guarded(|| Range::parse(t)) {
        judge(ctx, &r, t, true);
    }
}

pub fn run(ctx: &mut Ctx) {
    ctx.stratum("E1-single-comparators", true);
    for nums in [&[0u64, 1, 2][..], &[0, crate::mv::MAX_SAFE - 1, crate::mv::MAX_SAFE][..]] {
        for (op, p) in crate::monitors::c01::e1_comparators(nums) {
            if ctx.take() {
                let mut q = p.clone();
                from_text(ctx, &RangeAst::single(op, q.clone()).plain_text());
                if q.comps.len() == 3 {
                    q.build = vec!["b".into(), "5".into()];
                    from_text(ctx, &RangeAst::single(op, q).plain_text());
                }
            }
        }
    }
    ctx.stratum("T-bound-kind-table", true);
    let tiv = table_intervals(&chain());
    for iv in &tiv {
        if ctx.take() {
            from_text(ctx, &iv_text(iv));
        }
    }
    ctx.stratum("R-random-compound-ranges", false);
    let n = ctx.tier.n(40_000, 4_000_000);
    for i in 0..n {
        if !ctx.take() {
            continue;
        }
        let mut r = Rng::for_case(ctx.seed, "C13-R", i);
        let nums: &[u64] = if r.chance(1, 2) { &[0, 1, 2, 3] } else { crate::gen::NUMS_POOL };
        let ast = rand_ast(&mut r, nums, true);
        let sp = Spelling::random(&mut r);
        from_text(ctx, &ast.render(&sp));
    }
    // long alternative lists: written out (17..300 alternatives, some 3000) and produced by a
    // set operation (a list against a partner, so that the result has hundreds of pieces)
    ctx.stratum("L-long-alternative-lists", false);
    let n = ctx.tier.n(60, 500);
    for i in 0..n {
        if !ctx.take() {
            continue;
        }
        let mut r = Rng::for_case(ctx.seed, "C13-L", i);
        let a = match long_alt_operand_sized(&mut r, &tiv, 1) {
            Some(a) => a,
            None => continue,
        };
        let b = long_partner(&mut r, &a, &tiv);
        let done = on_small_stack(|| {
            judge(ctx, &a.range, &a.text, true);
            if let Some(b) = &b {
                for (how, res) in [
                    ("∩", guarded(|| a.range.intersect(&b.range))),
                    ("∖", guarded(|| a.range.difference(&b.range))),
                    ("∖'", guarded(|| if a.b.0.len() <= 300 { b.range.difference(&a.range) } else { None })),
                ] {
                    if let Ok(Some(x)) = res {
                        judge(ctx, &x, &format!("({} {} {})", a.text, how, b.text), false);
                    }
                }
            }
        });
        if done.is_none() {
            ctx.inconclusive("small-stack thread ended without a result");
        }
    }
    ctx.stratum("S-set-operation-results", false);
    let n = ctx.tier.n(40_000, 4_000_000);
    for i in 0..n {
        if !ctx.take() {
            continue;
        }
        let mut r = Rng::for_case(ctx.seed, "C13-S", i);
        let mut cur = match if r.chance(1, 2) { rand_operand(&mut r, &tiv) } else { rand_free_operand(&mut r) } {
            Some(c) => c,
            None => continue,
        };
        let steps = 1 + r.below(3);
        for _ in 0..steps {
            let other = match if r.chance(1, 2) { rand_operand(&mut r, &tiv) } else { rand_free_operand(&mut r) } {
                Some(c) => c,
                None => break,
            };
            let diff = r.chance(1, 2);
            let res = guarded(|| if diff { cur.range.difference(&other.range) } else { cur.range.intersect(&other.range) });
            match res {
                Ok(Some(x)) => {
                    let how = format!("({} {} {})", cur.text, if diff { "∖" } else { "∩" }, other.text);
                    judge(ctx, &x, &how, false);
                    match operand_from_range(x, &how) {
                        Ok(o) => cur = Operand { text: how, ..o },
                        Err(_) => break,
                    }
                }
                _ => break,
            }
        }
    }
}
