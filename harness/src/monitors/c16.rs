//! C16 — Version::diff names the release-type difference, symmetrically (node-semver 7.6.2 rules).

use crate::gen::*;
use crate::mv::*;
use crate::observe::guarded;
use crate::rng::Rng;
use crate::runner::*;
use nodejs_semver::Version;
use serde_json::json;
use std::cmp::Ordering;

pub const RULE: &str = "cases = ordered pairs of versions; exhaustive over fields {0,1,2}^3 x tag in {none,0,a,a.1} x build in {none,b} (all 46,656 ordered pairs), the same with fields {0,1,MAX_SAFE}, all 62,500 ordered pairs over fields {0,1,2^63,2^64-2,2^64-1} x tag in {none,rc} (field-built versions can carry any u64), plus seeded random pairs from the large pools; oracle = table statement of node-semver 7.6.2 diff (validated against frozen answers of the real implementation), symmetry, None iff precedence-equal, build invariance, Display = node's string; non-trivial = the two versions differ in precedence; distinct = distinct (a,b) texts";

/// Independent statement of node-semver 7.6.2 `diff` over model versions.
pub fn model_diff(a: &MV, b: &MV) -> Option<&'static str> {
    let c = cmp_mv(a, b);
    if c == Ordering::Equal {
        return None;
    }
    let (low, high) = if c == Ordering::Less { (a, b) } else { (b, a) };
    if low.is_pre() && !high.is_pre() {
        // prerelease -> release: the documented special cases
        return Some(if low.minor == 0 && low.patch == 0 {
            "major"
        } else if high.patch != 0 {
            "patch"
        } else if high.minor != 0 {
            "minor"
        } else {
            "major"
        });
    }
    let field = if a.major != b.major {
        0
    } else if a.minor != b.minor {
        1
    } else if a.patch != b.patch {
        2
    } else {
        3
    };
    Some(match (field, high.is_pre()) {
        (0, false) => "major",
        (0, true) => "premajor",
        (1, false) => "minor",
        (1, true) => "preminor",
        (2, false) => "patch",
        (2, true) => "prepatch",
        _ => "prerelease",
    })
}

fn class_of(a: &MV, b: &MV) -> String {
    let c = cmp_mv(a, b);
    let (low, high) = if c != Ordering::Greater { (a, b) } else { (b, a) };
    let field = if a.major != b.major {
        "major"
    } else if a.minor != b.minor {
        "minor"
    } else if a.patch != b.patch {
        "patch"
    } else if c != Ordering::Equal {
        "tag"
    } else {
        "equal"
    };
    format!(
        "lowpre={} highpre={} low.mz={} low.pz={} high.mz={} high.pz={} field={}",
        low.is_pre() as u8,
        high.is_pre() as u8,
        (low.minor == 0) as u8,
        (low.patch == 0) as u8,
        (high.minor == 0) as u8,
        (high.patch == 0) as u8,
        field
    )
}

fn judge(ctx: &mut Ctx, a: &MV, b: &MV) {
    judge_with(ctx, a, b, a.to_crate(), b.to_crate())
}

/// the same judgement on crate values obtained some other way (tuple conversions, parsing)
/// than through the fields; `a` / `b` are the versions those values are meant to be
fn judge_with(ctx: &mut Ctx, a: &MV, b: &MV, ca: Version, cb: Version) {
    ctx.begin(|| format!("C16 diff {} {}", a.text(), b.text()));
    let want = model_diff(a, b);
    let cls = class_of(a, b);
    ctx.eval(1);
    ctx.class(&cls);
    if want.is_some() {
        ctx.nontrivial(&format!("{} {}", a.text(), b.text()));
    }
    let got = match guarded(|| (ca.diff(&cb), cb.diff(&ca))) {
        Ok(g) => g,
        Err(p) => {
            ctx.violation(&format!("panic/{}", p.site), json!({"a": a.text(), "b": b.text()}), p.message);
            return;
        }
    };
    // the printed name of the result is part of the statement: printing it must not fail either
    let gs = match guarded(|| got.0.map(|d| d.to_string())) {
        Ok(g) => g,
        Err(p) => {
            ctx.violation(&format!("panic/display/{}", p.site), json!({"a": a.text(), "b": b.text(), "diff": format!("{:?}", got.0)}), p.message);
            return;
        }
    };
    ctx.sample(|| json!({"a": a.text(), "b": b.text(), "crate": gs, "model": want}));
    if let Some(d) = got.0 {
        if let Ok(Some(m)) = guarded(|| crate::observe::fmt_spec_mismatch(&d)) {
            ctx.violation(&format!("display-under-format-spec/{}", cls), json!({"a": a.text(), "b": b.text()}), m);
            return;
        }
    }
    if got.0 != got.1 {
        ctx.violation(&format!("asymmetric/{}", cls), json!({"a": a.text(), "b": b.text()}), format!("a.diff(b)={:?} but b.diff(a)={:?}", got.0, got.1));
        return;
    }
    if gs.as_deref() != want {
        let clause = if want.is_none() {
            "some-on-equal"
        } else if gs.is_none() {
            "none-on-different"
        } else {
            "wrong-type"
        };
        ctx.violation(&format!("{}/{}", clause, cls), json!({"a": a.text(), "b": b.text()}), format!("{}.diff({}) = {:?}, node-semver 7.6.2 reports {:?}", a.text(), b.text(), gs, want));
        return;
    }
    // build metadata never influences the answer
    let mut ab = ca.clone();
    ab.build = vec![nodejs_semver::Identifier::AlphaNumeric("zz".into()), nodejs_semver::Identifier::Numeric(9)];
    let mut bb = cb.clone();
    bb.build.clear();
    ctx.eval(1);
    if let Ok(g2) = guarded(|| ab.diff(&bb)) {
        if g2 != got.0 {
            ctx.violation(&format!("build-sensitive/{}", cls), json!({"a": a.text(), "b": b.text()}), format!("diff changes from {:?} to {:?} when only build metadata changes", got.0, g2));
        }
    }
}

pub fn run(ctx: &mut Ctx) {
    for (name, fields) in [("E-small-fields", [0u64, 1, 2]), ("E-max-fields", [0u64, 1, MAX_SAFE])] {
        ctx.stratum(name, true);
        let mut pool = vec![];
        for ma in fields {
            for mi in fields {
                for pa in fields {
                    for tag in ["", "0", "a", "a.1"] {
                        for build in ["", "b"] {
                            pool.push(MV::new(ma, mi, pa).with_pre_s(tag).with_build_s(build));
                        }
                    }
                }
            }
        }
        for a in &pool {
            for b in &pool {
                if ctx.take() {
                    judge(ctx, a, b);
                }
            }
        }
    }
    // versions built from fields / tuples can carry any u64: arithmetic on them must not wrap or trap
    ctx.stratum("X-extreme-fields", true);
    {
        let fields = [0u64, 1, 1 << 63, u64::MAX - 1, u64::MAX];
        let mut pool = vec![];
        for ma in fields {
            for mi in fields {
                for pa in fields {
                    for tag in ["", "rc"] {
                        pool.push(MV::new(ma, mi, pa).with_pre_s(tag));
                    }
                }
            }
        }
        for a in &pool {
            for b in &pool {
                if ctx.take() {
                    judge(ctx, a, b);
                }
            }
        }
    }
    // versions obtained from text (both entry points), spelled in ways that denote the same
    // identifiers differently: zero-padded numeric tags, `v` prefix, build metadata. The model
    // works on the denoted identifiers; the crate sees only the text.
    // versions built through the tuple conversions (every integer type, 3- and 4-tuples)
    ctx.stratum("TC-tuple-built-pairs", true);
    {
        let vals: [u64; 4] = [0, 1, 2, 7];
        let mut made: Vec<(MV, Vec<Version>)> = vec![];
        for &ma in &vals[..3] {
            for &mi in &vals[..2] {
                for &pa in &vals {
                    let m3 = MV::new(ma, mi, pa);
                    made.push((m3, vec![Version::from((ma as u8, mi as u8, pa as u8)), Version::from((ma as i8, mi as i8, pa as i8)), Version::from((ma as u16, mi as u16, pa as u16)), Version::from((ma as i16, mi as i16, pa as i16)), Version::from((ma as u32, mi as u32, pa as u32)), Version::from((ma as i32, mi as i32, pa as i32)), Version::from((ma, mi, pa)), Version::from((ma as i64, mi as i64, pa as i64)), Version::from((ma as usize, mi as usize, pa as usize)), Version::from((ma as isize, mi as isize, pa as isize))]));
                    for &d in &vals {
                        let m4 = MV::new(ma, mi, pa).with_pre(&[&d.to_string()]);
                        made.push((m4, vec![Version::from((ma as u8, mi as u8, pa as u8, d as u8)), Version::from((ma as i8, mi as i8, pa as i8, d as i8)), Version::from((ma as u16, mi as u16, pa as u16, d as u16)), Version::from((ma as i16, mi as i16, pa as i16, d as i16)), Version::from((ma as u32, mi as u32, pa as u32, d as u32)), Version::from((ma as i32, mi as i32, pa as i32, d as i32)), Version::from((ma, mi, pa, d)), Version::from((ma as i64, mi as i64, pa as i64, d as i64)), Version::from((ma as usize, mi as usize, pa as usize, d as usize)), Version::from((ma as isize, mi as isize, pa as isize, d as isize))]));
                    }
                }
            }
        }
        for (i, (a, cas)) in made.iter().enumerate() {
            if !ctx.take() {
                continue;
            }
            for (j, (b, cbs)) in made.iter().enumerate() {
                // rotate through the ten integer types on both sides
                let (ca, cb) = (cas[(i + j) % cas.len()].clone(), cbs[(i * 3 + j) % cbs.len()].clone());
                judge_with(ctx, a, b, ca, cb);
            }
        }
    }
    ctx.stratum("P-parsed-pairs-and-spellings", false);
    let np = ctx.tier.n(20_000, 2_000_000);
    for i in 0..np {
        if !ctx.take() {
            continue;
        }
        let mut r = Rng::for_case(ctx.seed, "C16-P", i);
        let den = |r: &mut Rng| -> MV {
            let mut v = MV::new(*r.pick(&[0u64, 1, 2]), *r.pick(&[0u64, 1, 2]), *r.pick(&[0u64, 1, 2]));
            if r.chance(2, 3) {
                for _ in 0..1 + r.below(3) {
                    v.pre.push(r.pick(&["0", "1", "7", "10", "rc", "a", "-1", "0a", "x"]).to_string());
                }
            }
            v
        };
        let spell = |r: &mut Rng, v: &MV| -> String {
            let ids: Vec<String> = v.pre.iter().map(|i| if all_digits(i) && r.chance(1, 2) { format!("{}{}", "0".repeat(1 + r.below(2)), i) } else { i.clone() }).collect();
            let mut t = format!("{}.{}.{}", v.major, v.minor, v.patch);
            if !ids.is_empty() {
                t.push('-');
                t.push_str(&ids.join("."));
            }
            if r.chance(1, 4) {
                t.push_str("+b.01");
            }
            if r.chance(1, 5) {
                t = format!("v{}", t);
            }
            t
        };
        let a = den(&mut r);
        let b = match r.below(3) {
            0 => a.clone(), // the same version, possibly spelled differently
            1 => {
                let mut b = a.clone();
                b.pre = den(&mut r).pre;
                b
            }
            _ => den(&mut r),
        };
        let (ta, tb) = (spell(&mut r, &a), spell(&mut r, &b));
        let (pa, pb) = match (guarded(|| Version::parse(&ta)), guarded(|| tb.parse::<Version>())) {
            (Ok(Ok(x)), Ok(Ok(y))) => (x, y),
            _ => continue, // acceptance is C05's subject
        };
        ctx.begin(|| format!("C16 parsed diff {:?} {:?}", ta, tb));
        let want = model_diff(&a, &b);
        ctx.eval(1);
        ctx.class(&format!("parsed:{}", class_of(&a, &b)));
        if want.is_some() || ta != tb {
            ctx.nontrivial(&format!("{} {}", ta, tb));
        }
        match guarded(|| (pa.diff(&pb), pb.diff(&pa))) {
            Err(p) => ctx.violation(&format!("panic/{}", p.site), json!({"a": ta, "b": tb}), p.message),
            Ok((g1, g2)) => {
                let gs = match guarded(|| g1.map(|d| d.to_string())) {
                    Ok(g) => g,
                    Err(p) => {
                        ctx.violation(&format!("panic/display/{}", p.site), json!({"a": ta, "b": tb}), p.message);
                        continue;
                    }
                };
                if g1 != g2 {
                    ctx.violation(&format!("asymmetric/parsed/{}", class_of(&a, &b)), json!({"a": ta, "b": tb}), format!("a.diff(b)={:?} but b.diff(a)={:?}", g1, g2));
                } else if gs.as_deref() != want {
                    let clause = if want.is_none() { "some-on-equal" } else if gs.is_none() { "none-on-different" } else { "wrong-type" };
                    ctx.violation(&format!("{}/parsed/{}", clause, class_of(&a, &b)), json!({"a": ta, "b": tb}), format!("Version::parse({:?}).diff(parse({:?})) = {:?}, node-semver 7.6.2 reports {:?} for the versions these texts denote", ta, tb, gs, want));
                }
            }
        }
    }
    ctx.stratum("R-random-pairs", false);
    let n = ctx.tier.n(200_000, 20_000_000);
    for i in 0..n {
        if ctx.take() {
            let mut r = Rng::for_case(ctx.seed, "C16-R", i);
            let small = r.chance(1, 2);
            let a = rand_version(&mut r, small);
            let b = match r.below(4) {
                0 => {
                    let mut b = a.clone();
                    b.pre = rand_ids(&mut r, 3);
                    b
                }
                1 => {
                    let mut b = a.clone();
                    match r.below(3) {
                        0 => b.major = *r.pick(NUMS_POOL),
                        1 => b.minor = *r.pick(NUMS_POOL),
                        _ => b.patch = *r.pick(NUMS_POOL),
                    }
                    b
                }
                _ => rand_version(&mut r, small),
            };
            judge(ctx, &a, &b);
        }
    }
}
