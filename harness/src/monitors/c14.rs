//! C14 — max_satisfying / min_satisfying return the extreme satisfying list element.

use crate::gen::*;
use crate::mv::*;
use crate::observe::*;
use crate::rast::*;
use crate::rng::Rng;
use crate::runner::*;
use nodejs_semver::{Range, Version};
use serde_json::json;
use std::cmp::Ordering;

pub const RULE: &str = "cases = (range, slice of 0..12 versions); lists are built from the probe set of the range's bounds (so they hold satisfying and non-satisfying elements, prereleases above the highest satisfying release, duplicates, versions equal up to build metadata), unsorted; every permutation for lists of length <= 5 (quick: <= 4), random shuffles above, long lists of 33..257 elements (strategy switches by size); oracle = candidates are the elements the crate's own satisfies admits; result None iff no candidate; otherwise the returned reference points into the slice, is a candidate, no candidate is above (below) it in the model order, permutations change the result only within its precedence class; non-trivial = the list has at least two candidates of different precedence and one non-candidate; distinct = distinct (range, list)";

fn permutations(n: usize) -> Vec<Vec<usize>> {
    let mut out = vec![];
    let mut idx: Vec<usize> = (0..n).collect();
    fn rec(k: usize, idx: &mut Vec<usize>, out: &mut Vec<Vec<usize>>) {
        if k == idx.len() {
            out.push(idx.clone());
            return;
        }
        for i in k..idx.len() {
            idx.swap(k, i);
            rec(k + 1, idx, out);
            idx.swap(k, i);
        }
    }
    rec(0, &mut idx, &mut out);
    out
}

fn judge_list(ctx: &mut Ctx, range: &Range, rtext: &str, list: &[MV]) -> bool {
    let cl: Vec<Version> = list.iter().map(|v| v.to_crate()).collect();
    let w = json!({"range": rtext, "list": list.iter().map(|v| v.text()).collect::<Vec<_>>()});
    let cand: Vec<usize> = (0..cl.len()).filter(|&i| range.satisfies(&cl[i])).collect();
    ctx.eval(2);
    let res = guarded(|| (range.max_satisfying(&cl).map(|r| r as *const Version), range.min_satisfying(&cl).map(|r| r as *const Version)));
    let (mx, mn) = match res {
        Ok(r) => r,
        Err(p) => {
            ctx.violation(&format!("panic/{}", p.site), w, p.message);
            return false;
        }
    };
    let base = cl.as_ptr();
    let index_of = |p: *const Version| -> Option<usize> {
        let off = (p as usize).wrapping_sub(base as usize);
        let sz = std::mem::size_of::<Version>();
        if (p as usize) >= (base as usize) && off % sz == 0 && off / sz < cl.len() {
            Some(off / sz)
        } else {
            None
        }
    };
    let feature = {
        let dup = list.iter().enumerate().any(|(i, a)| list.iter().skip(i + 1).any(|b| a == b));
        let buildonly = list.iter().enumerate().any(|(i, a)| list.iter().skip(i + 1).any(|b| a != b && cmp_mv(a, b) == Ordering::Equal));
        let pre_above = cand.iter().map(|&i| &list[i]).filter(|v| !v.is_pre()).max_by(|a, b| cmp_mv(a, b)).map(|top| list.iter().any(|v| v.is_pre() && mv_lt(top, v))).unwrap_or(false);
        format!("{}{}{}", if dup { "dup " } else { "" }, if buildonly { "build-only-differs " } else { "" }, if pre_above { "prerelease-above" } else { "" })
    };
    ctx.class(&format!("len{}:cand{}:{}", list.len().min(6), cand.len().min(3), feature.trim()));
    for (name, got, want_ord) in [("max", mx, Ordering::Greater), ("min", mn, Ordering::Less)] {
        match got {
            None => {
                if !cand.is_empty() {
                    ctx.violation(&format!("{}/none-but-candidates/{}", name, feature.trim()), w.clone(), format!("{}_satisfying returned None although {} satisfies", name, list[cand[0]].text()));
                    return false;
                }
            }
            Some(p) => {
                let i = match index_of(p) {
                    Some(i) => i,
                    None => {
                        ctx.violation(&format!("{}/not-a-slice-element", name), w.clone(), "returned reference does not point into the slice".into());
                        return false;
                    }
                };
                if !cand.contains(&i) {
                    let clause = if list[i].is_pre() { "unadmitted-prerelease" } else { "not-satisfying" };
                    ctx.violation(&format!("{}/{}/{}", name, clause, feature.trim()), w.clone(), format!("{}_satisfying returned {} which does not satisfy {}", name, list[i].text(), rtext));
                    return false;
                }
                for &c in &cand {
                    if cmp_mv(&list[c], &list[i]) == want_ord {
                        ctx.violation(&format!("{}/not-extreme/{}", name, feature.trim()), w.clone(), format!("{}_satisfying returned {} but {} also satisfies and is {}", name, list[i].text(), list[c].text(), if name == "max" { "higher" } else { "lower" }));
                        return false;
                    }
                }
            }
        }
    }
    true
}

pub fn judge(ctx: &mut Ctx, rtext: &str, list: &[MV], r: &mut Rng, max_perm_len: usize) {
    ctx.begin(|| format!("C14 {} over {:?}", rtext, list.iter().map(|v| v.text()).collect::<Vec<_>>()));
    let range = match guarded(|| Range::parse(rtext)) {
        Ok(Ok(x)) => x,
        _ => return,
    };
    let sat: Vec<bool> = list.iter().map(|v| range.satisfies(&v.to_crate())).collect();
    let cands: Vec<&MV> = list.iter().zip(sat.iter()).filter(|(_, s)| **s).map(|(v, _)| v).collect();
    let diverse = cands.iter().any(|a| cands.iter().any(|b| cmp_mv(a, b) != Ordering::Equal)) && sat.iter().any(|s| !*s);
    if diverse {
        ctx.nontrivial(&format!("{}|{:?}", rtext, list.iter().map(|v| v.text()).collect::<Vec<_>>()));
    }
    ctx.sample(|| json!({"range": rtext, "list": list.iter().map(|v| v.text()).collect::<Vec<_>>(), "satisfying": cands.iter().map(|v| v.text()).collect::<Vec<_>>()}));
    if list.len() <= max_perm_len {
        for p in permutations(list.len()) {
            let l: Vec<MV> = p.iter().map(|&i| list[i].clone()).collect();
            if !judge_list(ctx, &range, rtext, &l) {
                return;
            }
        }
    } else {
        let mut l = list.to_vec();
        for _ in 0..6 {
            if !judge_list(ctx, &range, rtext, &l) {
                return;
            }
            r.shuffle(&mut l);
        }
    }
}

/// long lists (tens to hundreds of elements): implementations may switch strategy with size
fn long_list_stratum(ctx: &mut Ctx) {
    ctx.stratum("L-long-lists", false);
    let n = ctx.tier.n(300, 30_000);
    for i in 0..n {
        if !ctx.take() {
            continue;
        }
        let mut r = Rng::for_case(ctx.seed, "C14-L", i);
        let ast = rand_ast(&mut r, &[0, 1, 2, 3], false);
        let rtext = ast.plain_text();
        let basis = desugar_range(&ast).map(|d| d.versions()).unwrap_or_default();
        let mut pool = probe_set(&basis);
        // a dense block of releases well above / below / across the bounds
        let base = *r.pick(&[0u64, 1, 2, 3, 5]);
        for mi in 0..10u64 {
            for pa in 0..10u64 {
                pool.push(MV::new(base, mi, pa));
            }
        }
        r.shuffle(&mut pool);
        let len = *r.pick(&[33usize, 63, 64, 65, 100, 127, 128, 129, 200, 257]);
        let mut list: Vec<MV> = pool.iter().cycle().take(len).cloned().collect();
        // only elements above (or below) every bounded end, in some cases
        if r.chance(1, 4) {
            list.retain(|v| v.major >= 2);
        }
        r.shuffle(&mut list);
        ctx.class(&format!("long-list:{}", if list.len() >= 64 { ">=64" } else { "<64" }));
        judge(ctx, &rtext, &list, &mut r, 0);
    }
}

/// ranges with long alternative lists (17..300 alternatives; a prerelease-admitting alternative
/// late in the list in one family): the list holds versions at and next to the bounds of the
/// alternatives around positions 0, 16, 32, 64, the middle and the end
fn long_range_stratum(ctx: &mut Ctx) {
    ctx.stratum("LR-long-alternative-lists", false);
    let tiv = crate::setops::table_intervals(&crate::setops::chain());
    let n = ctx.tier.n(80, 4_000);
    for i in 0..n {
        if !ctx.take() {
            continue;
        }
        let mut r = Rng::for_case(ctx.seed, "C14-LR", i);
        let a = match crate::setops::long_alt_operand_sized(&mut r, &tiv, 0) {
            Some(a) => a,
            None => continue,
        };
        let k = a.b.0.len();
        let mut idx: Vec<usize> = vec![0, 1, 15, 16, 17, 31, 32, 33, 63, 64, 65, k / 2, k.saturating_sub(2), k - 1];
        for _ in 0..3 {
            idx.push(r.below(k));
        }
        let mut basis = vec![];
        for j in idx {
            if j < k {
                basis.extend(a.b.0[j].versions());
            }
        }
        let mut pool = probe_set(&basis);
        r.shuffle(&mut pool);
        let len = 8 + r.below(24);
        let list: Vec<MV> = pool.into_iter().take(len).collect();
        ctx.class(&format!("long-range:{}", if k > 64 { ">64" } else if k > 32 { "33..64" } else { "17..32" }));
        judge(ctx, &a.text, &list, &mut r, 0);
    }
}

pub fn run(ctx: &mut Ctx) {
    long_list_stratum(ctx);
    long_range_stratum(ctx);
    ctx.stratum("D-directed", true);
    let d: Vec<(&str, Vec<&str>)> = vec![
        ("1.2", vec!["1.2.3", "1.2.4"]),
        ("~1.2.3", vec!["1.2.6", "1.2.3", "1.2.5", "1.2.4"]),
        ("^1.0.0", vec!["1.5.0", "2.0.0-alpha", "1.9.9", "2.0.0", "1.9.9+build", "1.10.0-beta"]),
        ("*", vec![]),
        (">=1.0.0 <2.0.0", vec!["2.0.0", "0.1.0"]),
        (">=1.0.0-a <1.0.0", vec!["1.0.0-b", "1.0.0-a", "0.9.9", "1.0.0", "1.0.0-b+x"]),
        ("<2 || >=3.0.0-rc", vec!["3.0.0-rc.1", "1.0.0", "3.0.0", "2.5.0", "3.0.0-alpha", "1.0.0+a", "1.0.0+b"]),
    ];
    for (rt, l) in d {
        if ctx.take() {
            let list: Vec<MV> = l.iter().map(|s| parse_canonical(s).unwrap()).collect();
            let mut r = Rng::new(1);
            judge(ctx, rt, &list, &mut r, 6);
        }
    }
    ctx.stratum("R-random-ranges-and-lists", false);
    let n = ctx.tier.n(30_000, 3_000_000);
    let maxp = ctx.tier.pick(4usize, 5usize);
    for i in 0..n {
        if !ctx.take() {
            continue;
        }
        let mut r = Rng::for_case(ctx.seed, "C14-R", i);
        let nums: &[u64] = if r.chance(2, 3) { &[0, 1, 2] } else { NUMS_POOL };
        let ast = rand_ast(&mut r, nums, false);
        let rtext = ast.plain_text();
        let basis = desugar_range(&ast).map(|d| d.versions()).unwrap_or_default();
        let mut pool = probe_set(&basis);
        r.shuffle(&mut pool);
        let len = r.below(13);
        let mut list: Vec<MV> = pool.into_iter().take(len).collect();
        // duplicates and build-only variants
        if !list.is_empty() && r.chance(1, 2) {
            let k = r.below(list.len());
            let mut d = list[k].clone();
            if r.chance(1, 2) {
                d.build = vec!["dup".into()];
            }
            let at = r.below(list.len() + 1);
            list.insert(at, d);
        }
        judge(ctx, &rtext, &list, &mut r, maxp);
    }
}
