//! C06 — no input makes any public operation panic, overflow, abort or hang; roughly linear time.

use crate::gen::*;
use crate::mv::*;
use crate::observe::*;
use crate::rng::Rng;
use crate::runner::*;
use crate::vstrings::*;
use miette::Diagnostic;
use nodejs_semver::{Range, Version};
use serde_json::{json, Value};
use std::collections::HashSet;
use std::hash::{Hash, Hasher};

pub const RULE: &str = "cases = hostile strings pushed through Range::parse and Version::parse and, on whatever comes back, every accessor / diagnostic of an error and every operation on values (Display, Debug, Clone, Hash, serde, satisfies, min_version, max/min_satisfying, diff, intersect, difference, allows_all, allows_any; against themselves, each other in both orders, and results fed back to depth 3); strata: XR every string over a 16-character range alphabet up to length 5 (quick) / 7 (thorough), XV every string over the version alphabet up to length 6 / 9, P pair and triple operations over the structurally distinct ranges collected from XR, U random UTF-8 (multi-byte at every position, combining marks, NUL), L long inputs 1 KiB..1 MiB of 17 families, S long lists of distinct alternatives (ascending, descending, middle-out, windows, nested; 300..30000 alternatives) and SI prerelease identifier lists of 300..40000 identifiers in range bounds and versions, every operation run on a 256 KiB stack; Display/Debug of every value under width / alignment / fill / precision / flag format specifications, N near-limit numbers and lengths, F field-built versions with components in {0,1,2^63,2^64-2,2^64-1} each against all the others, T tuple conversions with extreme values (assertions-off shard); built with overflow checks and debug assertions on (and once with them off); events = Panic (first nodejs_semver:: frame), Abort (signal), Timeout (CPU limit), Superlinear (cachegrind instruction counts at n, 2n, 4n), UB report (Miri / memcheck slice); non-trivial = the string parses with at least one parser, or its error is not at offset 0; distinct = distinct strings / operand pairs";

pub const SIGMA_R: &[char] = &['0', '1', '.', 'x', '*', '-', ' ', '|', '>', '<', '=', '~', '^', 'a', 'v', '+'];

fn token_class(s: &str) -> String {
    // class n-gram of the head of the input
    s.chars()
        .take(3)
        .map(|c| match c {
            '0'..='9' => 'd',
            'x' | 'X' | '*' => 'x',
            'a'..='z' | 'A'..='Z' => 'l',
            ' ' | '\t' => '_',
            '>' | '<' | '=' | '~' | '^' => 'o',
            '|' => '|',
            '.' | '-' | '+' => c,
            c if !c.is_ascii() => 'u',
            _ => '?',
        })
        .collect()
}

fn report_panic(ctx: &mut Ctx, op: &str, input: Value, p: PanicInfo) {
    ctx.violation(&format!("panic/{}/{}", p.site, message_class(&p.message)), json!({"op": op, "input": input}), p.message);
}

pub struct Pool {
    pub ranges: Vec<(String, Range, u8)>, // text, value, generation (results fed back)
    pub versions: Vec<Version>,
    pub seen: HashSet<String>,
    pub cap: usize,
}

impl Pool {
    pub fn new(cap: usize) -> Pool {
        Pool { ranges: vec![], versions: fixed_versions(), seen: HashSet::new(), cap }
    }
    fn add_range(&mut self, text: String, r: Range, gen: u8) {
        if self.ranges.len() < self.cap && self.seen.insert(text.clone()) {
            self.ranges.push((text, r, gen));
        }
    }
}

pub fn fixed_versions() -> Vec<Version> {
    let mut v = vec![];
    for t in ["0.0.0", "0.0.0-0", "0.0.1", "1.0.0", "1.0.0-a", "1.0.0-a.0", "1.0.1-0", "1.1.0", "2.0.0", "10.0.0-rc.1+b", "900719925474099.900719925474099.900719925474099", "1.2.3-18446744073709551615"] {
        v.push(parse_canonical(t).unwrap().to_crate());
    }
    // values only reachable through the public fields
    v.push(Version { major: u64::MAX, minor: u64::MAX, patch: u64::MAX, pre_release: vec![], build: vec![] });
    v.push(Version { major: 0, minor: 0, patch: u64::MAX, pre_release: vec![nodejs_semver::Identifier::Numeric(u64::MAX)], build: vec![] });
    v
}

thread_local! {
    static ERR_TICK: std::cell::Cell<u32> = std::cell::Cell::new(0);
}

struct Sink(u64);
impl Hasher for Sink {
    fn finish(&self) -> u64 {
        self.0
    }
    fn write(&mut self, b: &[u8]) {
        for x in b {
            self.0 = self.0.wrapping_mul(31).wrapping_add(*x as u64);
        }
    }
}

/// Display / Debug under the caller's format specification: width below, at and above the
/// text's length, every alignment, a fill character, precision, the `0`, `+` and `#` flags
pub fn fmt_specs<T: std::fmt::Display + std::fmt::Debug>(x: &T) -> usize {
    let plain = x.to_string();
    let w = plain.chars().count();
    let mut n = 0;
    for width in [0usize, 1, w.saturating_sub(1), w, w + 1, w + 7, 300] {
        n += format!("{:width$}", x, width = width).len();
        n += format!("{:<width$}", x, width = width).len();
        n += format!("{:>width$}", x, width = width).len();
        n += format!("{:^width$}", x, width = width).len();
        n += format!("{:*^width$}", x, width = width).len();
        n += format!("{:é>width$.prec$}", x, width = width, prec = w / 2).len();
        n += format!("{:0width$}", x, width = width).len();
        n += format!("{:width$?}", x, width = width).len();
    }
    n += format!("{:.0}", x).len() + format!("{:.3}", x).len() + format!("{:+}", x).len() + format!("{:#}", x).len() + format!("{:#?}", x).len() + format!("{:#010}", x).len();
    n
}

pub fn exercise_version(ctx: &mut Ctx, v: &Version, src: &str, pool: &Pool) {
    let r = guarded(|| {
        let s = v.to_string();
        if s.len() < 400 {
            let _ = fmt_specs(v);
            for id in v.pre_release.iter().chain(v.build.iter()) {
                let _ = fmt_specs(id);
            }
        }
        let _ = format!("{:?}", v);
        let c = v.clone();
        let mut h = Sink(0);
        v.hash(&mut h);
        let _ = v.cmp(&c);
        let _ = v == &c;
        let _ = v.is_prerelease();
        let _ = serde_json::to_string(v);
        let mut n = 0usize;
        for o in &pool.versions {
            if let Some(d) = v.diff(o) {
                if n < 4 {
                    let _ = fmt_specs(&d);
                }
            }
            let _ = o.diff(v);
            let _ = v.cmp(o);
            n += 1;
        }
        for (_, rg, _) in pool.ranges.iter().take(8) {
            let _ = v.satisfies(rg);
        }
        let _ = Version::parse(&s);
        n
    });
    ctx.eval(1);
    if let Err(p) = r {
        report_panic(ctx, "version-ops", json!(src), p);
    }
}

pub fn exercise_error(ctx: &mut Ctx, e: &nodejs_semver::SemverError, src: &str, which: &str) {
    let r = guarded(|| {
        let _ = e.input().len();
        let _ = e.span();
        let _ = e.offset();
        let _ = e.kind().to_string();
        let _ = e.location();
        let _ = e.to_string();
        let _ = format!("{:?}", e);
        // (every 8th error: sixty format calls on each of 268 million rejected strings is
        //  what made one enumeration block outlast the orchestrator's patience)
        if e.input().len() < 400 && ERR_TICK.with(|t| { let v = t.get().wrapping_add(1); t.set(v); v % 8 == 0 }) {
            let _ = fmt_specs(e);
            let _ = fmt_specs(e.kind());
        }
        let _ = e.clone();
        let _ = std::error::Error::source(e).map(|s| s.to_string());
        let _ = e.code().map(|c| c.to_string());
        let _ = e.severity();
        let _ = e.help().map(|c| c.to_string());
        let _ = e.url().map(|c| c.to_string());
        let _ = e.source_code().is_some();
        let _ = e.labels().map(|l| l.count());
        let _ = e.kind().code().map(|c| c.to_string());
        let mut out = String::new();
        let _ = miette::NarratableReportHandler::new().render_report(&mut out, e);
        let mut out2 = String::new();
        let _ = miette::JSONReportHandler::new().render_report(&mut out2, e);
        out.len() + out2.len()
    });
    ctx.eval(1);
    if let Err(p) = r {
        report_panic(ctx, &format!("error-accessors/{}", which), json!(src), p);
    }
}

pub fn exercise_range(ctx: &mut Ctx, r: &Range, src: &str, pool: &Pool) {
    let res = guarded(|| {
        let s = r.to_string();
        if s.len() < 400 {
            let _ = fmt_specs(r);
        }
        let _ = format!("{:?}", r);
        let c = r.clone();
        let mut h = Sink(0);
        r.hash(&mut h);
        let _ = r == &c;
        let _ = serde_json::to_string(r);
        for v in &pool.versions {
            let _ = r.satisfies(v);
        }
        let _ = r.min_version();
        let _ = r.max_satisfying(&pool.versions);
        let _ = r.min_satisfying(&pool.versions);
        let _ = r.max_satisfying(&[]);
        // against itself. The result of a binary operation has up to |A|·|B| alternatives, so
        // for ranges with many alternatives (long-input families) the partner is a fixed small
        // range: the harness must not exhaust memory on output that is quadratic by definition.
        // counted from the stored state (not from Display, which a defect may have shortened)
        let alts = bounds(r).map(|b| b.0.len()).unwrap_or(usize::MAX).max(s.matches("||").count() + 1);
        if alts <= 40 {
            let _ = r.intersect(r);
            let _ = r.difference(r);
            let _ = r.allows_all(r);
            let _ = r.allows_any(r);
        } else {
            let small = Range::parse(">=1.0.0 <2.0.0 || 3.x").unwrap();
            let _ = r.intersect(&small);
            let _ = small.intersect(r);
            let _ = r.difference(&small);
            let _ = small.difference(r);
            let _ = r.allows_all(&small);
            let _ = small.allows_all(r);
            let _ = r.allows_any(&small);
            let _ = small.allows_any(r);
        }
        let _ = Range::parse(&s);
        s
    });
    ctx.eval(1);
    if let Err(p) = res {
        report_panic(ctx, "range-ops", json!(src), p);
    }
}

/// binary operations in both orders; results are returned for feeding back
pub fn exercise_pair(ctx: &mut Ctx, a: &(String, Range, u8), b: &(String, Range, u8), out: &mut Vec<(String, Range, u8)>) {
    ctx.begin(|| format!("C06 pair {:?} {:?}", a.0, b.0));
    let res = guarded(|| {
        let i1 = a.1.intersect(&b.1);
        let i2 = b.1.intersect(&a.1);
        let d1 = a.1.difference(&b.1);
        let d2 = b.1.difference(&a.1);
        let _ = a.1.allows_all(&b.1);
        let _ = b.1.allows_all(&a.1);
        let _ = a.1.allows_any(&b.1);
        let _ = b.1.allows_any(&a.1);
        (i1, i2, d1, d2)
    });
    ctx.eval(8);
    match res {
        Err(p) => report_panic(ctx, "pair-ops", json!([a.0, b.0]), p),
        Ok((i1, _i2, d1, d2)) => {
            let gen = a.2.max(b.2) + 1;
            if gen <= 3 {
                for (x, name) in [(i1, "∩"), (d1, "∖"), (d2, "∖'")] {
                    if let Some(x) = x {
                        // every result must also print, re-parse and answer queries
                        let t = format!("({} {} {})", a.0, name, b.0);
                        if let Err(p) = guarded(|| {
                            let s = x.to_string();
                            let _ = x.min_version();
                            let _ = Range::parse(&s);
                        }) {
                            report_panic(ctx, "result-ops", json!(t), p);
                        }
                        out.push((t, x, gen));
                    }
                }
            }
        }
    }
}

pub fn exercise_string(ctx: &mut Ctx, s: &str, pool: &mut Pool) {
    ctx.begin(|| format!("C06 string {:?}", if s.len() > 200 { format!("{}… ({} bytes)", s.chars().take(60).collect::<String>(), s.len()) } else { s.to_string() }));
    let mut parsed_any = false;
    let mut err_off = 0usize;
    match guarded(|| Version::parse(s)) {
        Err(p) => report_panic(ctx, "Version::parse", json!(short(s)), p),
        Ok(Ok(v)) => {
            parsed_any = true;
            exercise_version(ctx, &v, s, pool);
            if pool.versions.len() < 64 {
                pool.versions.push(v);
            }
        }
        Ok(Err(e)) => {
            err_off = err_off.max(guarded(|| e.offset()).unwrap_or(0));
            exercise_error(ctx, &e, &short(s), "Version");
        }
    }
    match guarded(|| Range::parse(s)) {
        Err(p) => report_panic(ctx, "Range::parse", json!(short(s)), p),
        Ok(Ok(r)) => {
            parsed_any = true;
            exercise_range(ctx, &r, &short(s), pool);
            if s.len() < 200 {
                let t = guarded(|| r.to_string()).unwrap_or_default();
                pool.add_range(t, r, 0);
            }
        }
        Ok(Err(e)) => {
            err_off = err_off.max(guarded(|| e.offset()).unwrap_or(0));
            exercise_error(ctx, &e, &short(s), "Range");
        }
    }
    // FromStr and serde entry points
    let _ = guarded(|| {
        let _ = s.parse::<Version>();
        let _ = s.parse::<Range>();
        if s.len() < 300 {
            let q = serde_json::to_string(s).unwrap();
            let _ = serde_json::from_str::<Version>(&q);
            let _ = serde_json::from_str::<Range>(&q);
        }
    })
    .map_err(|p| report_panic(ctx, "FromStr/serde", json!(short(s)), p));
    ctx.eval(2);
    ctx.note("strings pushed through both parsers", 1);
    ctx.class(&format!("{}:{}", if parsed_any { "ok" } else { "err" }, token_class(s)));
    if parsed_any || err_off > 0 {
        ctx.nontrivial(s);
    }
}

fn short(s: &str) -> String {
    if s.len() > 300 {
        format!("{}… ({} bytes, family head)", s.chars().take(80).collect::<String>(), s.len())
    } else {
        s.to_string()
    }
}

pub const LIST_FAMILIES: &[&str] = &["asc-major", "desc-major", "desc-patch", "asc-patch", "zigzag", "desc-windows", "asc-windows", "desc-pre", "nested-windows"];

/// `n` distinct alternatives in a given order (text length grows with n)
pub fn list_input(f: &str, n: usize) -> String {
    let alts: Vec<String> = match f {
        "asc-major" => (1..=n).map(|i| format!("{}.0.0", i)).collect(),
        "desc-major" => (1..=n).rev().map(|i| format!("{}.0.0", i)).collect(),
        "asc-patch" => (1..=n).map(|i| format!("1.0.{}", i)).collect(),
        "desc-patch" => (1..=n).rev().map(|i| format!("1.0.{}", i)).collect(),
        // middle-out: every new alternative falls inside a piece left by the earlier ones
        "zigzag" => (0..n).map(|i| if i % 2 == 0 { format!("1.{}.0", n + i / 2) } else { format!("1.{}.0", n - 1 - i / 2) }).collect(),
        "desc-windows" => (1..=n).rev().map(|i| format!(">=1.{}.2 <1.{}.7", i, i)).collect(),
        "asc-windows" => (1..=n).map(|i| format!(">1.{}.2 <=1.{}.7", i, i)).collect(),
        "desc-pre" => (1..=n).rev().map(|i| format!("1.0.0-{}", i)).collect(),
        // each alternative strictly inside the previous one
        _ => (0..n).map(|i| format!(">={}.0.0 <{}.0.0", i + 1, 2 * n + 2 - i)).collect(),
    };
    alts.join("||")
}

pub const FAMILIES: &[&str] = &["a", "blank", "v123_", "v123or", "foo_", "pre_ids", "ge_pre_long", "hyphen_", "dash_", "gt", "digits", "onedot", "xdot", "bar", "tilde_", "mixed", "eacute", "asclist", "desclist", "windowlist", "idlist", "conjlist"];

/// long input of family `f`, about `n` bytes
pub fn family_input(f: &str, n: usize) -> String {
    let rep = |unit: &str| -> String { unit.repeat(n / unit.len().max(1) + 1) };
    // lists of *distinct* members (a per-member scan of the earlier members stays cheap when
    // they are all equal): about n bytes of text
    let list = |item: &dyn Fn(usize) -> String, sep: &str| -> String {
        let mut s = String::with_capacity(n + 32);
        let mut k = 0usize;
        while s.len() < n {
            if k > 0 {
                s.push_str(sep);
            }
            s.push_str(&item(k));
            k += 1;
        }
        s
    };
    match f {
        "asclist" => return list(&|k| format!("{}.0.0", k + 1), "||"),
        "desclist" => return list(&|k| format!("{}.0.0", 900_000_000usize - k), "||"),
        "windowlist" => return list(&|k| format!(">=1.{}.2 <1.{}.7", k, k), " || "),
        "idlist" => return format!(">=1.0.0-{}", list(&|k| format!("{}", k % 977), ".")),
        "conjlist" => return list(&|k| if k % 2 == 0 { format!(">=1.0.{}", k) } else { format!("<900000000.0.{}", k) }, " "),
        _ => {}
    }
    match f {
        "a" => rep("a"),
        "blank" => rep(" "),
        "v123_" => rep("1.2.3 "),
        "v123or" => rep("1.2.3||"),
        "foo_" => rep("foo "),
        "pre_ids" => format!("1.2.3-{}", rep("a.")) + "a",
        "ge_pre_long" => format!(">=1.2.3-{}", rep("a")),
        "hyphen_" => rep("1 - 2 "),
        "dash_" => rep("- "),
        "gt" => rep(">"),
        "digits" => rep("7"),
        "onedot" => rep("1."),
        "xdot" => rep("x."),
        "bar" => rep("|"),
        "tilde_" => rep("~ "),
        "mixed" => rep(">=1.2.3-a <2 || ^0.1 ~x.1 foo 1 - 2 ||*|| "),
        "eacute" => rep("é"),
        _ => rep("?"),
    }
}

pub fn run(ctx: &mut Ctx) {
    let quick = ctx.tier == Tier::Quick;
    let mut pool = Pool::new(if quick { 3000 } else { 20000 });
    // the one public constructor besides parsing: Range::any() (both ends unbounded)
    ctx.stratum("A-range-any", true);
    if ctx.take() {
        match guarded(Range::any) {
            Ok(any) => {
                exercise_range(ctx, &any, "Range::any()", &pool);
                let a = ("Range::any()".to_string(), any, 0u8);
                for t in ["*", ">=1.2.3 <2.0.0", "<1.0.0-a || >2", "1.2.3", "<=1"] {
                    if let Ok(r) = Range::parse(t) {
                        let mut out = vec![];
                        exercise_pair(ctx, &a, &(t.to_string(), r, 0u8), &mut out);
                        for o in out {
                            let mut out2 = vec![];
                            exercise_pair(ctx, &o, &a, &mut out2);
                        }
                    }
                }
                pool.add_range("Range::any()".into(), a.1, 0);
            }
            Err(p) => report_panic(ctx, "Range::any", json!("Range::any()"), p),
        }
    }
    // ---- F: versions only reachable through the public fields / tuple conversions (any u64),
    //      each against all the others: diff / cmp / Display / satisfies must not trap or wrap
    ctx.stratum("F-field-built-extreme-versions", true);
    {
        let fields = [0u64, 1, 1 << 63, u64::MAX - 1, u64::MAX];
        let mut fpool = Pool::new(16);
        fpool.versions.clear();
        for ma in fields {
            for mi in fields {
                for pa in fields {
                    for tag in 0..3 {
                        let pre = match tag {
                            0 => vec![],
                            1 => vec![nodejs_semver::Identifier::AlphaNumeric("rc".into())],
                            _ => vec![nodejs_semver::Identifier::Numeric(u64::MAX)],
                        };
                        fpool.versions.push(Version { major: ma, minor: mi, patch: pa, pre_release: pre, build: vec![] });
                    }
                }
            }
        }
        for t in ["*", "^1.2.3", "<1.0.0-a || >2", ">=900719925474099.900719925474099.900719925474099"] {
            if let Ok(r) = Range::parse(t) {
                fpool.add_range(t.to_string(), r, 0);
            }
        }
        let vs = fpool.versions.clone();
        for v in &vs {
            if ctx.take() {
                ctx.begin(|| format!("C06 F {:?}", (v.major, v.minor, v.patch, v.pre_release.len())));
                ctx.class("F/field-built");
                exercise_version(ctx, v, "field-built", &fpool);
            }
        }
    }
    // ---- XR: exhaustive range alphabet
    ctx.stratum("XR-exhaustive-range-alphabet", true);
    let k = SIGMA_R.len();
    let max_len = ctx.tier.pick(5usize, 7usize);
    // shard by 2-char prefix block; short strings in block 0
    if ctx.take() {
        for s in ["", " ", "|", "||"] {
            exercise_string(ctx, s, &mut pool);
        }
        for a in SIGMA_R {
            exercise_string(ctx, &a.to_string(), &mut pool);
        }
    }
    let mut buf = String::new();
    for p in 0..k * k {
        if !ctx.take() {
            continue;
        }
        let prefix: String = [SIGMA_R[p / k], SIGMA_R[p % k]].iter().collect();
        for len in 0..=(max_len - 2) {
            let total = k.pow(len as u32);
            for idx in 0..total {
                buf.clear();
                buf.push_str(&prefix);
                let mut x = idx;
                for _ in 0..len {
                    buf.push(SIGMA_R[x % k]);
                    x /= k;
                }
                let s = buf.clone();
                exercise_string(ctx, &s, &mut pool);
            }
        }
    }
    ctx.note("structurally distinct ranges collected from XR (per shard, capped)", pool.ranges.len() as u64);
    // ---- XV: exhaustive version alphabet
    ctx.stratum("XV-exhaustive-version-alphabet", true);
    let vmax = ctx.tier.pick(6usize, 9usize);
    {
        let mut p2 = Pool::new(0);
        exhaustive(ctx, vmax, &mut |ctx, s| exercise_string(ctx, s, &mut p2));
    }
    // ---- P: pairs / triples over the collected distinct ranges, results fed back
    ctx.stratum("P-pairs-and-compositions-of-collected-ranges", false);
    {
        let base: Vec<(String, Range, u8)> = pool.ranges.clone();
        let n = base.len();
        let npairs = ctx.tier.pick(150_000usize, 4_000_000usize);
        let mut r = Rng::new(crate::rng::mix(ctx.seed, "C06-P", ctx.shard as u64));
        let mut fed: Vec<(String, Range, u8)> = vec![];
        if n > 0 {
            for _ in 0..npairs {
                ctx.count_case();
                let (i, j) = (r.below(n), r.below(n));
                let mut out = vec![];
                exercise_pair(ctx, &base[i], &base[j], &mut out);
                ctx.nontrivial_h(hash64(&base[i].0) ^ hash64(&base[j].0).rotate_left(17));
                // compositions: feed results back (depth <= 3)
                for o in out {
                    if fed.len() < 2000 {
                        fed.push(o);
                    } else {
                        let kx = r.below(fed.len());
                        fed[kx] = o;
                    }
                }
                if !fed.is_empty() && r.chance(1, 3) {
                    let f = fed[r.below(fed.len())].clone();
                    let g = if r.chance(1, 2) { base[r.below(n)].clone() } else { fed[r.below(fed.len())].clone() };
                    let mut out2 = vec![];
                    exercise_pair(ctx, &f, &g, &mut out2);
                    ctx.class(&format!("composition-depth{}", f.2.max(g.2) + 1));
                    for o in out2 {
                        if fed.len() < 2000 {
                            fed.push(o);
                        }
                    }
                }
            }
        }
    }
    // ---- PT: every ordered pair of the bound-kind table (a prerelease, its successor, the
    // release, its successor …) and neighbour operands: the shapes where `unwrap`s on interval
    // construction and `unreachable!` arms would fire
    ctx.stratum("PT-bound-kind-table-pairs", true);
    {
        let table: Vec<(String, Range, u8)> = crate::setops::table_operands(&crate::setops::chain()).into_iter().map(|o| (o.text, o.range, 0u8)).collect();
        for a in &table {
            if !ctx.take() {
                continue;
            }
            for b in &table {
                let mut out = vec![];
                exercise_pair(ctx, a, b, &mut out);
                for o in out.iter().take(3) {
                    let mut out2 = vec![];
                    exercise_pair(ctx, o, b, &mut out2);
                }
            }
            ctx.class("table-pairs");
        }
    }
    ctx.stratum("PN-neighbour-operand-pairs", false);
    {
        let tiv = crate::setops::table_intervals(&crate::setops::chain());
        let n = ctx.tier.n(20_000, 2_000_000);
        for i in 0..n {
            if !ctx.take() {
                continue;
            }
            let mut r = Rng::for_case(ctx.seed, "C06-PN", i);
            let a = if r.chance(1, 2) { crate::setops::rand_operand(&mut r, &tiv) } else { crate::setops::rand_free_operand(&mut r) };
            if let Some(a) = a {
                if let Some(b) = crate::setops::neighbour_operand(&mut r, &a) {
                    let (x, y) = ((a.text, a.range, 0u8), (b.text, b.range, 0u8));
                    let mut out = vec![];
                    exercise_pair(ctx, &x, &y, &mut out);
                    for o in out.iter().take(2) {
                        let mut out2 = vec![];
                        exercise_pair(ctx, o, &x, &mut out2);
                    }
                    ctx.class("neighbour-pairs");
                }
            }
        }
    }
    // ---- U: random UTF-8
    ctx.stratum("U-random-utf8", false);
    let nu = ctx.tier.n(150_000, 15_000_000);
    let uni: &[&str] = &["é", "Ł", "ű", "中", "😀", "\u{301}", "\u{0}", "\n", "\t", "\u{a0}", "\u{2028}", "ａ", "１", "·", "\u{feff}", "\u{7f}", "\\", "\"", "_", ","];
    let ascii: &[&str] = &["1", "2", "0", ".", ".", "-", "+", " ", "||", ">", "<", "=", ">=", "~", "^", "x", "*", "v", "a", "rc", "1.2.3", "900719925474099", "900719925474100", "18446744073709551616", " - "];
    for i in 0..nu {
        if !ctx.take() {
            continue;
        }
        let mut r = Rng::for_case(ctx.seed, "C06-U", i);
        let n = 1 + r.below(10);
        let mut s = String::new();
        for _ in 0..n {
            if r.chance(1, 3) {
                s.push_str(*r.pick(uni));
            } else {
                s.push_str(*r.pick(ascii));
            }
        }
        exercise_string(ctx, &s, &mut pool);
        // a multi-byte character at every position of a valid text
        if r.chance(1, 50) {
            let base = *r.pick(&["1.2.3", ">=1.2.3 <2.0.0", "^1.2.3-rc.1 || ~2", "1.2.3-alpha+build", "1 - 2"]);
            let chars: Vec<char> = base.chars().collect();
            for pos in 0..=chars.len() {
                let mut t: String = chars[..pos].iter().collect();
                t.push_str(*r.pick(uni));
                t.extend(chars[pos..].iter());
                exercise_string(ctx, &t, &mut pool);
            }
        }
    }
    // ---- N: near-limit numbers and lengths
    ctx.stratum("N-near-limits", false);
    for i in 0..ctx.tier.pick(4u64, 64u64) {
        if !ctx.take() {
            continue;
        }
        let mut r = Rng::for_case(ctx.seed, "C06-N", i);
        let mut ss = vec![];
        near_limits(&mut r, &mut |s| ss.push(s.to_string()));
        for n in ["900719925474098", "900719925474099", "900719925474100", "18446744073709551615", "18446744073709551616", "9999999999999999999999999"] {
            for op in ["", ">", ">=", "<", "<=", "=", "~", "^", "~>"] {
                for shape in ["{}", "{}.{}", "{}.{}.{}", "1.{}", "1.2.{}", "{}.x", "{}.{}.x", "0.0.{}", "0.{}.0", "{}.0.0-a", "1.2.3-{}"] {
                    ss.push(format!("{}{}", op, shape.replace("{}", n)));
                }
            }
            ss.push(format!("{} - {}", n, n));
            ss.push(format!("1 - {}", n));
            ss.push(format!("{}.{} - 1.{}", n, n, n));
        }
        for s in ss {
            exercise_string(ctx, &s, &mut pool);
        }
    }
    // pairs among the near-limit ranges (MAX_SAFE + 1 arithmetic inside set operations)
    {
        let base: Vec<(String, Range, u8)> = pool.ranges.iter().filter(|(t, _, _)| t.contains("9007199254740")).cloned().collect();
        let mut r = Rng::new(crate::rng::mix(ctx.seed, "C06-NP", ctx.shard as u64));
        if !base.is_empty() {
            for _ in 0..ctx.tier.pick(5_000usize, 200_000usize) {
                ctx.count_case();
                let mut out = vec![];
                let (i, j) = (r.below(base.len()), r.below(base.len()));
                exercise_pair(ctx, &base[i], &base[j], &mut out);
            }
        }
    }
    // ---- S: long lists of *distinct* alternatives on a small stack. Stack use of every
    //      operation must not grow with the number of alternatives: the operations run on a
    //      256 KiB thread (constant-depth code needs a few KiB), so recursion whose depth follows
    //      the list length ends in a stack-overflow abort, which the orchestrator attributes.
    ctx.stratum("S-long-alternative-lists-on-small-stack", false);
    {
        // 30 000 alternatives: linear-cost operations only (at optimisation level 2 a recursive
        // frame can be as small as 16..48 bytes, so 3 000 levels may still fit into 256 KiB)
        // (12 000 was tried in the thorough tier: one wide piece minus 12 000 holes, four partners, ran
        //  for more than the orchestrator's 90 CPU-seconds in one case — the harness's own doing)
        let _ = quick;
        let sizes: &[usize] = &[300, 3000, 30_000];
        for fam in LIST_FAMILIES {
            for &n in sizes {
                if !ctx.take() {
                    continue;
                }
                let text = list_input(fam, n);
                ctx.begin(|| format!("C06 S list family {} n={}", fam, n));
                ctx.class(&format!("list:{}:{}", fam, n));
                ctx.eval(1);
                let t2 = text.clone();
                let h = std::thread::Builder::new().stack_size(256 * 1024).spawn(move || {
                    guarded(|| {
                        let r = match Range::parse(&t2) {
                            Ok(r) => r,
                            Err(_) => return 0usize,
                        };
                        let shown = r.to_string();
                        let _ = Range::parse(&shown);
                        let _ = r.min_version();
                        let probe = [Version::from((1u64, 0, 0)), Version::from((0u64, 0, 1)), Version::from((5u64, 5, 5))];
                        let _ = r.max_satisfying(&probe);
                        let mut k = 0usize;
                        for partner in ["*", ">=1.0.0 <2.0.0 || 3.x", "<1.0.0-0 || >=2.5.0", ">0.0.1 <=900719925474099.0.0"] {
                            let q = Range::parse(partner).unwrap();
                            if n <= 3_000 {
                                // one wide piece minus n holes is quadratic by construction
                                k += q.difference(&r).map(|d| d.to_string().len()).unwrap_or(0);
                            }
                            k += r.difference(&q).map(|d| d.to_string().len()).unwrap_or(0);
                            k += q.intersect(&r).map(|d| d.to_string().len()).unwrap_or(0);
                            k += r.intersect(&q).map(|d| d.to_string().len()).unwrap_or(0);
                            k += (q.allows_all(&r) as usize) + (r.allows_all(&q) as usize) + (q.allows_any(&r) as usize) + (r.allows_any(&q) as usize);
                        }
                        if n <= 300 {
                            let _ = r.intersect(&r);
                            let _ = r.difference(&r);
                        }
                        k + (r.allows_all(&r) as usize) + (r.allows_any(&r) as usize)
                    })
                });
                match h.map(|h| h.join()) {
                    Ok(Ok(Ok(_))) => ctx.nontrivial(&format!("{}:{}", fam, n)),
                    Ok(Ok(Err(p))) => report_panic(ctx, "list-ops", json!({"family": fam, "alternatives": n}), p),
                    Ok(Err(_)) => ctx.inconclusive("small-stack thread ended without a result"),
                    Err(e) => ctx.inconclusive(&format!("cannot spawn small-stack thread: {}", e)),
                }
            }
        }
    }
    // ---- SI: long identifier lists (a range bound has no length limit; the fields are public)
    ctx.stratum("SI-long-identifier-lists-on-small-stack", true);
    for &n in &[300usize, 3_000, 40_000] {
        for fam in 0..3usize {
            if !ctx.take() {
                continue;
            }
            ctx.begin(|| format!("C06 SI identifier list family {} n={}", fam, n));
            ctx.class(&format!("idlist:{}:{}", fam, n));
            ctx.eval(1);
            let ids: String = (0..n).map(|k| match (fam, k % 3) { (0, _) => "a", (1, 0) => "0", (1, _) => "rc", (_, 0) => "-", _ => "7" }).collect::<Vec<_>>().join(".");
            let h = std::thread::Builder::new().stack_size(256 * 1024).spawn(move || {
                guarded(|| {
                    let mut k = 0usize;
                    for text in [format!(">=1.0.0-{} <2.0.0", ids), format!("<=1.0.0-{}.1 || 1.0.0-{}", ids, ids), format!("1.0.0-{} - 1.0.0-{}.5", ids, ids)] {
                        let r = match Range::parse(&text) {
                            Ok(r) => r,
                            Err(e) => {
                                k += e.to_string().len() + e.location().0;
                                continue;
                            }
                        };
                        let shown = r.to_string();
                        k += Range::parse(&shown).map(|x| (x == r) as usize).unwrap_or(0);
                        if let Some(m) = r.min_version() {
                            k += r.satisfies(&m) as usize;
                            let mut up = m.clone();
                            up.pre_release.push(nodejs_semver::Identifier::Numeric(0));
                            k += r.satisfies(&up) as usize + (m < up) as usize + (m == up) as usize;
                            k += m.diff(&up).map(|d| d.to_string().len()).unwrap_or(0);
                            k += m.to_string().len();
                            let mut hs = Sink(0);
                            m.hash(&mut hs);
                            let mut v = vec![up.clone(), m.clone(), up.clone()];
                            v.sort();
                            k += r.max_satisfying(&v).is_some() as usize;
                        }
                        k += r.intersect(&r).is_some() as usize + r.difference(&r).is_none() as usize + r.allows_all(&r) as usize + r.allows_any(&r) as usize;
                    }
                    k
                })
            });
            match h.map(|h| h.join()) {
                Ok(Ok(Ok(_))) => ctx.nontrivial(&format!("idlist:{}:{}", fam, n)),
                Ok(Ok(Err(p))) => report_panic(ctx, "identifier-list-ops", json!({"family": fam, "identifiers": n}), p),
                Ok(Err(_)) => ctx.inconclusive("small-stack thread ended without a result"),
                Err(e) => ctx.inconclusive(&format!("cannot spawn small-stack thread: {}", e)),
            }
        }
    }
    // ---- L: long inputs
    ctx.stratum("L-long-inputs", false);
    let sizes: &[usize] = if quick { &[1 << 10, 1 << 14, 1 << 17] } else { &[1 << 10, 1 << 14, 1 << 17, 1 << 20] };
    for f in FAMILIES {
        for &n in sizes {
            if !ctx.take() {
                continue;
            }
            let s = family_input(f, n);
            let t0 = std::time::Instant::now();
            exercise_string(ctx, &s, &mut pool);
            ctx.class(&format!("long:{}:{}", f, n));
            let ms = t0.elapsed().as_millis() as u64;
            if ms > 20_000 {
                ctx.inconclusive(&format!("long input family {} size {} took {} ms wall (not a verdict; see cachegrind stage)", f, n, ms));
            }
        }
    }
    ctx.sample(|| json!({"note": "strings are enumerated / generated; see strata and classes"}));
    let _ = (NUMS_POOL, MAX_SAFE);
}

// -------------------------------------------------------------------------------------------
// assertions-off shard: tuple conversions with extreme (incl. negative) values, arithmetic at
// the numeric limits. Run from the release-profile binary.

pub fn run_release_slice() -> (u64, Vec<String>) {
    let mut n = 0u64;
    let mut bad = vec![];
    macro_rules! t {
        ($t:ty) => {{
            let ex: [$t; 5] = [<$t>::MIN, <$t>::MIN / 2, 0 as $t, <$t>::MAX / 2, <$t>::MAX];
            for a in ex {
                for b in ex {
                    for c in ex {
                        n += 2;
                        if let Err(p) = guarded(|| {
                            let v = Version::from((a, b, c));
                            let w = Version::from((a, b, c, c));
                            let _ = v.to_string();
                            let _ = w.to_string();
                            let _ = v.cmp(&w);
                            let _ = v.diff(&w);
                            let _ = Version::parse(v.to_string());
                            if let Ok(r) = Range::parse(format!("^{} || ~{} || >{}", v, v, v)) {
                                let _ = r.satisfies(&v);
                                let _ = r.min_version();
                            }
                        }) {
                            bad.push(format!("{} ({},{},{}): {} at {}", stringify!($t), a, b, c, p.message, p.site));
                        }
                    }
                }
            }
        }};
    }
    t!(u8);
    t!(u16);
    t!(u32);
    t!(u64);
    t!(usize);
    t!(i8);
    t!(i16);
    t!(i32);
    t!(i64);
    t!(isize);
    // range arithmetic at the limits with overflow checks off
    for n_ in ["900719925474099", "900719925474098"] {
        for op in ["", ">", ">=", "<", "<=", "=", "~", "^", "~>"] {
            for shape in ["{}", "{}.{}", "{}.{}.{}", "0.0.{}", "0.{}.0"] {
                let t = format!("{}{}", op, shape.replace("{}", n_));
                n += 1;
                if let Err(p) = guarded(|| {
                    if let Ok(r) = Range::parse(&t) {
                        let _ = r.to_string();
                        let _ = r.min_version();
                        let _ = r.intersect(&r);
                        let _ = r.difference(&r);
                    }
                }) {
                    bad.push(format!("range {:?}: {} at {}", t, p.message, p.site));
                }
            }
        }
    }
    (n, bad)
}

// -------------------------------------------------------------------------------------------
// linear-time stage: one operation on one long input (run under cachegrind by the orchestrator)

pub const LIN_OPS: &[&str] = &["Version::parse", "Range::parse", "to_string", "satisfies", "min_version", "intersect", "difference", "error-render"];

pub fn lin_driver(family: &str, op: &str, n: usize) {
    let s = family_input(family, n);
    let probe = parse_canonical("1.2.3-a").unwrap().to_crate();
    let fixed = Range::parse(">=1.0.0 <2.0.0 || 3.x").unwrap();
    match op {
        "Version::parse" => {
            // Version::parse refuses anything above MAX_LENGTH at once; feed it in 256-byte pieces
            let mut acc = 0usize;
            let bytes = s.as_bytes();
            let mut i = 0;
            while i < bytes.len() {
                let mut e = (i + 256).min(bytes.len());
                while !s.is_char_boundary(e) {
                    e -= 1;
                }
                if e == i {
                    break;
                }
                acc += Version::parse(&s[i..e]).is_ok() as usize;
                i = e;
            }
            std::hint::black_box(acc);
        }
        "Range::parse" => {
            std::hint::black_box(Range::parse(&s).is_ok());
        }
        "error-render" => {
            if let Err(e) = Range::parse(&s) {
                let _ = e.location();
                let mut out = String::new();
                let _ = miette::NarratableReportHandler::new().render_report(&mut out, &e);
                std::hint::black_box(out.len());
            }
        }
        _ => {
            if let Ok(r) = Range::parse(&s) {
                match op {
                    "to_string" => {
                        std::hint::black_box(r.to_string().len());
                    }
                    "satisfies" => {
                        std::hint::black_box(r.satisfies(&probe));
                    }
                    "min_version" => {
                        std::hint::black_box(r.min_version());
                    }
                    "intersect" => {
                        std::hint::black_box(r.intersect(&fixed).is_some());
                    }
                    "difference" => {
                        std::hint::black_box(r.difference(&fixed).is_some());
                    }
                    _ => {}
                }
            }
        }
    }
}

// -------------------------------------------------------------------------------------------
// sanitizer slice (Miri / memcheck): a few hundred executions through every code path that the
// other strata reach, small enough for an interpreter. Single process, no files, no threads.

pub fn sanitizer_slice(part: usize, parts: usize) -> (u64, Vec<String>) {
    let mut ctx = Ctx::new("C06", Tier::Quick, 1, 0, 1);
    ctx.replaying = true; // take() always true
    let mut pool = Pool::new(200);
    let mut inputs: Vec<String> = vec![];
    for s in [
        "1.2.3", "v1.2.3-alpha.1+b.2", " 1.2.3 ", "1.2.3beta", "1.2", "", "é", "1.2.3-é", "1.2.3.4", "1.2.900719925474100", "1.2.18446744073709551616", "\n1.2", "a\nb\n1.2.x",
        ">=1.2.3 <2.0.0", "^1.2.3-rc.1 || ~2 || 3.x", "1 - 2", "1.2.3 - 2.3", "<=1", "<1", ">x", "<=x", "^x", "~x", "=x", "1.x.3", ">=1.2.3 <1.0.0", "foo", "|| ||", "1.2.3 foo", " - 10", ">01.02.03", "~> 1", "^ 1.2 ^ 1",
        ">1.0.0 <1.0.1", "<0.0.0-0 || >=2.0.0", "*", "^900719925474099", "~1.900719925474099", ">900719925474099", "<=900719925474099.900719925474099", "1.2.3-😀", ">=1.2.3\u{0}", "1.2.3 || \u{301}",
    ] {
        inputs.push(s.to_string());
    }
    inputs.push(format!("1.2.3-{}", "é".repeat(130)));
    inputs.push(format!("1.2.3-{}", "a".repeat(251)));
    inputs.push(format!("1.2.3{}", "a".repeat(251)));
    inputs.push(family_input("mixed", 600));
    inputs.push(family_input("v123or", 300));
    inputs.push(family_input("eacute", 300));
    let mut n = 0u64;
    for (i, s) in inputs.iter().enumerate() {
        if i % parts != part {
            continue;
        }
        exercise_string(&mut ctx, s, &mut pool);
        n += 1;
    }
    // pair operations over what was collected (all shards parse a fixed set so pairs exist)
    let mut base: Vec<(String, Range, u8)> = vec![];
    for t in [">=1.2.3 <2.0.0", "<1.2.3", "<=1.2.3", ">1.2.3", "1.2.3", "1.5.0 || 2.0.0", ">=1.0.0-a <1.0.0-a.0", "<1.0.1-0 || >=3", "*", "^0.0.1-beta", "1 - 3", "<=1"] {
        if let Ok(r) = Range::parse(t) {
            base.push((t.to_string(), r, 0));
        }
    }
    let mut k = 0;
    for a in &base {
        for b in &base {
            k += 1;
            if k % parts != part {
                continue;
            }
            let mut out = vec![];
            exercise_pair(&mut ctx, a, b, &mut out);
            for o in out.iter().take(2) {
                let mut out2 = vec![];
                exercise_pair(&mut ctx, o, a, &mut out2);
            }
            n += 1;
        }
    }
    let bad: Vec<String> = ctx.violations.values().map(|v| format!("{}: {} {}", v.sig, v.witness, v.detail)).collect();
    (n, bad)
}
