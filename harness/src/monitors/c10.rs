//! C10 — allows_all(A,B) = true guarantees B's versions are all allowed by A.

use crate::observe::*;
use crate::rng::Rng;
use crate::runner::*;
use crate::setops::*;
use serde_json::json;

pub const RULE: &str = "cases = ordered pairs (A,B) with B a single alternative (multi-alternative B is generated for the self-inclusion clause only); T exhaustive bound-kind table, M multi-alternative A x single B, S self-inclusion A.allows_all(A) for every generated A, L long alternative lists (17..300 alternatives, some 3000) against small partners in both orders on a 256 KiB stack, P random prerelease bounds; oracle = true ⇒ every probe within B's hook bounds is within A's (and release satisfaction follows), true ⇒ allows_any, single-alternative A: true ⇔ B.difference(A) is None; non-trivial = the pair has a tie or nested/equal ends (answer could flip with an inclusive/exclusive slip); distinct = distinct operand text pairs";

pub fn judge_pair(ctx: &mut Ctx, a: &Operand, b: &Operand) {
    ctx.begin(|| format!("C10 allows_all {} , {}", a.text, b.text));
    let w = json!({"a": a.text, "b": b.text});
    let tc = tie_cell(&a.b, &b.b);
    if b.b.0.len() != 1 {
        ctx.skip("multi-alternative B (left out by the statement)");
        return;
    }
    let (all, any, diff_none) = match guarded(|| (a.range.allows_all(&b.range), a.range.allows_any(&b.range), if a.b.0.len() <= 300 { b.range.difference(&a.range).is_none() } else { false })) {
        Ok(r) => r,
        Err(p) => {
            ctx.violation(&format!("panic/{}/{}", p.site, message_class(&p.message)), w, p.message);
            return;
        }
    };
    ctx.eval(3);
    ctx.class(&format!("cell:{}:{}", if a.b.0.len() == 1 { crate::setops::cell(&a.b.0[0], &b.b.0[0]) } else { tc.clone() }, all));
    if tc != "no-tie" {
        ctx.nontrivial(&format!("{}|{}", a.text, b.text));
    }
    ctx.sample(|| json!({"a": a.text, "b": b.text, "allows_all": all, "allows_any": any, "b_minus_a_is_none": diff_none}));
    if all {
        if !any {
            ctx.violation(&format!("all-without-any/{}", tc), w, "allows_all=true but allows_any=false".into());
            return;
        }
        for v in probes_for(&[&a.b, &b.b]) {
            ctx.eval(1);
            if b.b.contains(&v) && !a.b.contains(&v) {
                ctx.violation(&format!("unsound/{}", tc), w, format!("{}.allows_all({}) = true but {} is within B's bounds and outside A's", a.text, b.text, v.text()));
                return;
            }
            if !v.is_pre() && sat(&b.range, &v) && !sat(&a.range, &v) {
                ctx.violation(&format!("unsound-sat/{}", tc), w, format!("allows_all=true but release {} satisfies B and not A", v.text()));
                return;
            }
        }
    }
    if a.b.0.len() == 1 {
        // exact characterisation for single alternatives; judged only where difference itself
        // agrees with the interval model (otherwise that is C08's finding)
        let model_none = b.b.witness_outside(&a.b).is_none();
        if all != diff_none {
            // `(x, succ(x))`-style intervals hold no version: B∖A is None although the ends are
            // not nested. The statement's equivalence is about sets of versions; skip those.
            if b.b.0[0].is_empty() && diff_none == model_none {
                ctx.skip("B holds no version (gap interval)");
                return;
            }
            ctx.violation(&format!("all≠diff-none/{}", tc), w, format!("allows_all={} but B.difference(A).is_none()={} (interval model: nothing of B outside A = {})", all, diff_none, model_none));
        }
    }
}

pub fn self_inclusion(ctx: &mut Ctx, a: &Operand) {
    ctx.eval(1);
    match guarded(|| a.range.allows_all(&a.range)) {
        Ok(true) => {}
        Ok(false) => ctx.violation(&format!("self/{}", if a.b.0.len() == 1 { "single" } else { "multi" }), json!({"a": a.text}), format!("{}.allows_all(itself) = false", a.text)),
        Err(p) => ctx.violation(&format!("panic/{}", p.site), json!({"a": a.text}), p.message),
    }
}

pub fn run(ctx: &mut Ctx) {
    let table = table_operands(&chain());
    let tiv = table_intervals(&chain());
    ctx.stratum("T-bound-kind-table", true);
    for a in &table {
        for b in &table {
            if ctx.take() {
                judge_pair(ctx, a, b);
            }
        }
    }
    ctx.stratum("S-self-inclusion", false);
    for a in &table {
        if ctx.take() {
            self_inclusion(ctx, a);
        }
    }
    let n = ctx.tier.n(20_000, 1_000_000);
    for i in 0..n {
        if ctx.take() {
            let mut r = Rng::for_case(ctx.seed, "C10-S", i);
            if let Some(a) = if r.chance(1, 2) { rand_operand(&mut r, &tiv) } else { rand_free_operand(&mut r) } {
                ctx.class(&format!("self:alts{}", a.b.0.len().min(4)));
                self_inclusion(ctx, &a);
            }
        }
    }
    ctx.stratum("M-multi-A-single-B", false);
    let n = ctx.tier.n(60_000, 6_000_000);
    for i in 0..n {
        if ctx.take() {
            let mut r = Rng::for_case(ctx.seed, "C10-M", i);
            let a = rand_operand(&mut r, &tiv);
            let b = operand_from_text(&iv_text(r.pick(&tiv)));
            if let (Some(a), Some(b)) = (a, b) {
                judge_pair(ctx, &a, &b);
            }
        }
    }
    // second operand built from the boundary probes of the first one's bounds
    ctx.stratum("N-neighbour-operands", false);
    let n = ctx.tier.n(30_000, 3_000_000);
    for i in 0..n {
        if ctx.take() {
            let mut r = Rng::for_case(ctx.seed, "C10-N", i);
            let a = if r.chance(1, 2) { rand_operand(&mut r, &tiv) } else { rand_free_operand(&mut r) };
            if let Some(a) = a {
                if let Some(b) = neighbour_operand(&mut r, &a) {
                    judge_pair(ctx, &a, &b);
                judge_pair(ctx, &b, &a);
                }
            }
        }
    }
    // bounds that carry build metadata (different on the two sides, on one side only, equal):
    // the short-chain table, all ordered pairs
    ctx.stratum("BM-build-metadata-on-bounds", true);
    for (a, b) in &build_metadata_pairs() {
        if ctx.take() {
            judge_pair(ctx, a, b);
        }
    }
    // long alternative lists (17..300, some 3000) against small partners, both orders, run
    // on a 256 KiB stack: counts around 16/32/64/256 and stack depth following the list length
    ctx.stratum("L-long-alternative-lists", false);
    let n = ctx.tier.n(60, 500);
    for i in 0..n {
        if ctx.take() {
            let mut r = Rng::for_case(ctx.seed, "C10-L", i);
            if let Some(a) = long_alt_operand(&mut r, &tiv, true) {
                if let Some(b) = long_partner(&mut r, &a, &tiv) {
                    let done = on_small_stack(|| {
                        judge_pair(ctx, &a, &b);
                        judge_pair(ctx, &b, &a);
                    });
                    if done.is_none() {
                        ctx.inconclusive("small-stack thread ended without a result");
                    }
                }
            }
        }
    }
    ctx.stratum("P-prerelease-and-big-bounds", false);
    let n = ctx.tier.n(30_000, 3_000_000);
    for i in 0..n {
        if ctx.take() {
            let mut r = Rng::for_case(ctx.seed, "C10-P", i);
            if let (Some(a), Some(b)) = (rand_free_operand(&mut r), rand_free_operand(&mut r)) {
                judge_pair(ctx, &a, &b);
            }
        }
    }
}
