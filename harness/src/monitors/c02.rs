//! C02 — space-joined comparators intersect; `||` alternatives unite; order never matters.

use crate::interval::*;
use crate::monitors::c01::e1_comparators;
use crate::mv::*;
use crate::observe::*;
use crate::rast::*;
use crate::rng::Rng;
use crate::runner::*;
use crate::setops::{probes_for, sat};
use nodejs_semver::Range;
use serde_json::json;

pub const RULE: &str = "cases = pairs (a,b) of parseable comparator-list texts; E2 ordered pairs of the exhaustive single-comparator table (operator x shape x {0,1,2}, with tags) — all 2.2M pairs in thorough, a seed-shifted stride sample in quick; R random comparator lists (1-2 comparators, prerelease bounds, big numbers); G garbage-only sides and garbage interleaved; T triples `a b c` in all six orders; oracle (crate vs crate) = U=parse(a||b) satisfied iff A or B; J=parse(a b): release iff both, prerelease iff within the hook bounds of both and satisfying one; J unparsable only if no probe is admitted by both; `b a`, `b || a`, garbage insertion answer identically; non-trivial = A and B are neither disjoint nor equal on the probe set, or the conjunction is empty; distinct = distinct (a,b) texts";

struct Side {
    text: String,
    range: Range,
    b: Bs,
}

fn side(text: &str) -> Option<Side> {
    let range = guarded(|| Range::parse(text)).ok()?.ok()?;
    let b = bounds(&range).ok()?;
    Some(Side { text: text.to_string(), range, b })
}

fn relation(a: &Bs, b: &Bs, probes: &[MV]) -> &'static str {
    let (mut both, mut only_a, mut only_b) = (0, 0, 0);
    for v in probes {
        match (a.contains(v), b.contains(v)) {
            (true, true) => both += 1,
            (true, false) => only_a += 1,
            (false, true) => only_b += 1,
            _ => {}
        }
    }
    match (both > 0, only_a > 0, only_b > 0) {
        (false, _, _) => "disjoint",
        (true, false, false) => "equal",
        (true, true, true) => "overlap",
        (true, _, _) => "nested",
    }
}

/// how the conjunction of A and B must answer for version v
fn conj_expect(a: &Side, b: &Side, v: &MV) -> bool {
    if !v.is_pre() {
        sat(&a.range, v) && sat(&b.range, v)
    } else {
        a.b.contains(v) && b.b.contains(v) && (sat(&a.range, v) || sat(&b.range, v))
    }
}

pub fn judge_pair(ctx: &mut Ctx, a_text: &str, b_text: &str, class_hint: &str) {
    ctx.begin(|| format!("C02 a={:?} b={:?}", a_text, b_text));
    let (a, b) = match (side(a_text), side(b_text)) {
        (Some(a), Some(b)) => (a, b),
        _ => {
            ctx.skip("a side does not parse on its own");
            return;
        }
    };
    if a.b.0.len() != 1 || b.b.0.len() != 1 {
        ctx.skip("side is not a single alternative");
        return;
    }
    let w = json!({"a": a.text, "b": b.text});
    // garbage tokens rotate through the whole list (token-boundary junk, lone pipes, …) and
    // are placed before, between and after the comparators
    let h = hash64(&format!("{}|{}", a.text, b.text)) as usize;
    let (g1, g2, g3) = (GARBAGE[h % GARBAGE.len()], GARBAGE[(h / 31) % GARBAGE.len()], GARBAGE[(h / 977) % GARBAGE.len()]);
    let texts = [
        format!("{} || {}", a.text, b.text),
        format!("{} || {}", b.text, a.text),
        format!("{} {}", a.text, b.text),
        format!("{} {}", b.text, a.text),
        format!("{}||{}", a.text, b.text),
        format!("{} {} {} {}  {}", g1, a.text, g2, b.text, g3),
        format!("{} || {}", a.text, g1),
    ];
    let parsed: Vec<Option<Range>> = match guarded(|| texts.iter().map(|t| Range::parse(t).ok()).collect::<Vec<_>>()) {
        Ok(p) => p,
        Err(p) => {
            ctx.violation(&format!("panic/{}", p.site), w, p.message);
            return;
        }
    };
    let mut all: Vec<Bs> = vec![];
    for r in parsed.iter().flatten() {
        if let Ok(x) = bounds(r) {
            all.push(x);
        }
    }
    let mut refs: Vec<&Bs> = vec![&a.b, &b.b];
    refs.extend(all.iter());
    let probes = probes_for(&refs);
    let rel = relation(&a.b, &b.b, &probes);
    ctx.class(&format!("{}:{}", class_hint, rel));
    if rel == "overlap" || rel == "nested" || rel == "disjoint" {
        ctx.nontrivial(&format!("{}|{}", a.text, b.text));
    }
    ctx.sample(|| json!({"a": a.text, "b": b.text, "relation": rel, "a||b": parsed[0].as_ref().map(|r| r.to_string()), "a b": parsed[2].as_ref().map(|r| r.to_string()), "probes": probes.len()}));
    let (u, u2, j, j2, u3, jg, ag) = (&parsed[0], &parsed[1], &parsed[2], &parsed[3], &parsed[4], &parsed[5], &parsed[6]);
    // `a || b` must parse
    let u = match u {
        Some(u) => u,
        None => {
            ctx.violation(&format!("or/unparsed/{}", rel), w, format!("both {:?} and {:?} parse but {:?} does not", a.text, b.text, texts[0]));
            return;
        }
    };
    let mut any_both = None;
    for v in &probes {
        ctx.eval(1);
        let (sa, sb) = (sat(&a.range, v), sat(&b.range, v));
        let want_u = sa || sb;
        let kind = if v.is_pre() { "pre" } else { "rel" };
        if sat(u, v) != want_u {
            ctx.violation(&format!("or/union/{}/{}", rel, kind), w, format!("{:?} satisfied by {}: {} but sides answer {} / {}", texts[0], v.text(), sat(u, v), sa, sb));
            return;
        }
        for (alt, name) in [(u2, "b||a"), (u3, "a||b-no-blanks")] {
            match alt {
                Some(x) if sat(x, v) == want_u => {}
                _ => {
                    ctx.violation(&format!("order/or/{}/{}", name, rel), w, format!("{} answers differently from `a || b` at {}", name, v.text()));
                    return;
                }
            }
        }
        match ag {
            Some(x) if sat(x, v) == sa => {}
            _ => {
                ctx.violation(&format!("garbage/or-side/{}", rel), w, format!("{:?} must answer like {:?} at {}", texts[6], a.text, v.text()));
                return;
            }
        }
        let want_j = conj_expect(&a, &b, v);
        if want_j && any_both.is_none() {
            any_both = Some(v.clone());
        }
        match j {
            Some(jr) => {
                let got = sat(jr, v);
                if got != want_j {
                    let dir = if got { "widens" } else { "narrows" };
                    ctx.violation(&format!("conj/{}/{}/{}", dir, rel, kind), w, format!("{:?} parsed to {}; {} satisfies it: {} but sides say both={} (satA={} satB={} inA={} inB={})", texts[2], jr, v.text(), got, want_j, sa, sb, a.b.contains(v), b.b.contains(v)));
                    return;
                }
                for (alt, name) in [(j2, "b a"), (jg, "garbage-interleaved")] {
                    match alt {
                        Some(x) if sat(x, v) == got => {}
                        _ => {
                            ctx.violation(&format!("order/conj/{}/{}", name, rel), w, format!("{} answers differently from `a b` at {} (or does not parse)", name, v.text()));
                            return;
                        }
                    }
                }
            }
            None => {
                if j2.is_some() || jg.is_some() {
                    ctx.violation(&format!("order/conj/parse-differs/{}", rel), w, "`a b` does not parse but `b a` or the garbage-interleaved form does".into());
                    return;
                }
            }
        }
    }
    if j.is_none() {
        if let Some(v) = any_both {
            ctx.violation(&format!("conj/unparsed-but-satisfiable/{}", rel), w, format!("{:?} fails to parse although {} is admitted by both sides", texts[2], v.text()));
        }
    }
}

fn cmp_text(op: Op, p: &Partial) -> String {
    RangeAst::single(op, p.clone()).plain_text()
}

pub fn run(ctx: &mut Ctx) {
    let e1 = e1_comparators(&[0, 1, 2]);
    let full = ctx.tier == Tier::Thorough;
    ctx.stratum("E2-comparator-pairs", full);
    let n = e1.len() as u64;
    let total = n * n;
    let stride = if full { 1 } else { (total / 60_000).max(1) };
    let mut idx = ctx.seed % stride;
    while idx < total {
        if ctx.take() {
            let (a, b) = (&e1[(idx / n) as usize], &e1[(idx % n) as usize]);
            judge_pair(ctx, &cmp_text(a.0, &a.1), &cmp_text(b.0, &b.1), &format!("{},{}", a.0.name(), b.0.name()));
        }
        idx += stride;
    }
    // the bottom of the order, exhaustively: every comparator that admits nothing or everything
    // (`>*`, `<*`, `<0.0.0-0`, `<0.0.0`, `*`, `>=0.0.0`, `>=0.0.0-0`) and every operator on the
    // tuples 0.0.0 / 0.0.1 with and without tags, all ordered pairs
    ctx.stratum("Z-zero-region-pairs", true);
    {
        let mut zs: Vec<String> = vec![">*".into(), "<*".into(), ">x".into(), "<X.x".into(), "*".into(), "<=*".into(), "x".into()];
        for op in [">", ">=", "<", "<=", "=", "^", "~", ""] {
            for v in ["0.0.0", "0.0.0-0", "0.0.0-0.0", "0.0.0-alpha", "0.0.1-0", "0.0.1", "0.0", "0"] {
                zs.push(format!("{}{}", op, v));
            }
        }
        for a in &zs {
            if !ctx.take() {
                continue;
            }
            for b in &zs {
                judge_pair(ctx, a, b, "zero-region");
            }
        }
    }
    ctx.stratum("D-directed", true);
    for (a, b) in [(">=1.2.3", "<1.0.0"), (">=1.0.0-a", "<1"), ("^1.2.3", "~1.2"), (">1.0.0-a", "<1.0.0-a.0"), ("1.2.3", "1.2.4"), ("*", "1.2.3-a"), (">=1.2.3-a", ">=1.2.0"), ("<2.0.0-rc", "<1.5.0"), ("<=1", ">=1.0.0-0"), (">=0.0.0", "<0.0.0-0")] {
        if ctx.take() {
            judge_pair(ctx, a, b, "directed");
        }
    }
    ctx.stratum("R-random-comparator-lists", false);
    let nr = ctx.tier.n(40_000, 4_000_000);
    for i in 0..nr {
        if !ctx.take() {
            continue;
        }
        let mut r = Rng::for_case(ctx.seed, "C02-R", i);
        let nums: &[u64] = if r.chance(2, 3) { &[0, 1, 2, 3] } else { crate::gen::NUMS_POOL };
        let mut mk = |r: &mut Rng| -> String {
            let k = 1 + r.below(2);
            (0..k).map(|_| cmp_text(*r.pick(ALL_OPS), &rand_partial(r, nums))).collect::<Vec<_>>().join(" ")
        };
        let (a, b) = (mk(&mut r), mk(&mut r));
        judge_pair(ctx, &a, &b, "random");
    }
    // long conjunctions: 17..70 comparators on one side (counts around 16/32/64), nested so that
    // the conjunction stays satisfiable; tagged comparators among them; any order
    ctx.stratum("LC-long-conjunctions", false);
    let nl = ctx.tier.n(60, 3_000);
    for i in 0..nl {
        if !ctx.take() {
            continue;
        }
        let mut r = Rng::for_case(ctx.seed, "C02-LC", i);
        let mut mk = |r: &mut Rng| -> String {
            let k = *r.pick(&[1usize, 2, 17, 18, 33, 34, 65, 70]);
            let mut c: Vec<String> = vec![];
            for j in 0..k {
                let t = match r.below(6) {
                    0 => format!(">=1.0.{}", j),
                    1 => format!(">1.0.{}", j),
                    2 => format!("<3.0.{}", 200 - j),
                    3 => format!("<=3.0.{}", 200 - j),
                    4 => format!(">=1.0.{}-rc.{}", j, j % 3),
                    _ => format!("<3.0.{}-beta", 200 - j),
                };
                c.push(t);
            }
            match r.below(3) {
                0 => {}
                1 => c.reverse(),
                _ => r.shuffle(&mut c),
            }
            c.join(" ")
        };
        let (a, b) = (mk(&mut r), mk(&mut r));
        judge_pair(ctx, &a, &b, "long-conjunction");
    }
    // every kind of side (comparator sets *and* hyphen ranges) joined by `||` in every
    // spelling of the separator and in both orders, two and three alternatives: the union law
    ctx.stratum("OS-or-spellings-with-hyphen-sides", false);
    let nos = ctx.tier.n(4_000, 400_000);
    for i in 0..nos {
        if !ctx.take() {
            continue;
        }
        let mut r = Rng::for_case(ctx.seed, "C02-OS", i);
        let nums: &[u64] = if r.chance(3, 4) { &[0, 1, 2, 3] } else { crate::gen::NUMS_POOL };
        let mut mk = |r: &mut Rng| -> String {
            if r.chance(1, 5) {
                // a full version in one of the spellings the *version* grammar knows (`V1.2.3`,
                // `v 1.2.3`, padded, hyphen-less tag …): alone and composed it must mean the same
                let v = crate::gen::rand_version(r, true);
                let mut t = vec![];
                crate::vstrings::spellings(&v.no_build(), &mut |x| t.push(x.to_string()));
                return r.pick(&t).trim().to_string();
            }
            if r.chance(1, 2) {
                let (lo, hi) = (rand_partial(r, nums), rand_partial(r, nums));
                format!("{} - {}", lo.render(&Spelling::plain(), false), hi.render(&Spelling::plain(), false))
            } else {
                let k = 1 + r.below(2);
                (0..k).map(|_| cmp_text(*r.pick(ALL_OPS), &rand_partial(r, nums))).collect::<Vec<_>>().join(" ")
            }
        };
        let parts: Vec<String> = (0..2 + r.below(2)).map(|_| mk(&mut r)).collect();
        let sides: Vec<Option<Side>> = parts.iter().map(|t| side(t)).collect();
        ctx.begin(|| format!("C02 or-spellings {:?}", parts));
        let mut bs: Vec<&Bs> = vec![];
        for s in sides.iter().flatten() {
            bs.push(&s.b);
        }
        let probes = probes_for(&bs);
        for sep in ["||", " || ", " ||", "|| ", "\t||\t", "  ||  "] {
            let text = parts.join(sep);
            let whole = guarded(|| Range::parse(&text)).ok().and_then(|x| x.ok());
            ctx.eval(1);
            ctx.class(&format!("or-spelling:{:?}:{}", sep, parts.len()));
            let mut any_side_admits = false;
            for v in &probes {
                let want = sides.iter().flatten().any(|s| sat(&s.range, v));
                any_side_admits |= want;
                let got = whole.as_ref().map(|w| sat(w, v)).unwrap_or(false);
                if got != want {
                    ctx.violation(
                        &format!("or-spelling/{}/{}", if want { "side-lost" } else { "admits-extra" }, if parts.iter().any(|p| p.contains(" - ")) { "hyphen-side" } else { "comparator-sides" }),
                        json!({"text": text, "sides": parts, "version": v.text()}),
                        format!("{:?}: version {} satisfies the whole = {} but some side alone = {}", text, v.text(), got, want),
                    );
                    break;
                }
            }
            if any_side_admits {
                ctx.nontrivial(&text);
            }
        }
    }
    ctx.stratum("T-triples-all-orders", false);
    let nt = ctx.tier.n(5_000, 500_000);
    for i in 0..nt {
        if !ctx.take() {
            continue;
        }
        let mut r = Rng::for_case(ctx.seed, "C02-T", i);
        let c: Vec<String> = (0..3).map(|_| { let (op, p) = r.pick(&e1).clone(); cmp_text(op, &p) }).collect();
        ctx.begin(|| format!("C02 triple {:?}", c));
        let orders = [[0, 1, 2], [0, 2, 1], [1, 0, 2], [1, 2, 0], [2, 0, 1], [2, 1, 0]];
        let texts: Vec<String> = orders.iter().map(|o| format!("{} {} {}", c[o[0]], c[o[1]], c[o[2]])).collect();
        let parsed: Vec<Option<Range>> = texts.iter().map(|t| guarded(|| Range::parse(t)).ok().and_then(|x| x.ok())).collect();
        let sides: Vec<Option<Side>> = c.iter().map(|t| side(t)).collect();
        if sides.iter().any(|s| s.is_none()) {
            continue;
        }
        let sides: Vec<Side> = sides.into_iter().flatten().collect();
        let refs: Vec<&Bs> = sides.iter().map(|s| &s.b).collect();
        let probes = probes_for(&refs);
        ctx.class("triple");
        let w = json!({"a": c[0], "b": c[1], "c": c[2]});
        'outer: for v in &probes {
            ctx.eval(1);
            let first = parsed[0].as_ref().map(|r| sat(r, v));
            for (k, p) in parsed.iter().enumerate().skip(1) {
                if p.as_ref().map(|r| sat(r, v)) != first && !(first.is_none() && p.is_none()) {
                    // an unparsable order must at least admit nothing in the parsable ones
                    let a1 = first.unwrap_or(false);
                    let a2 = p.as_ref().map(|r| sat(r, v)).unwrap_or(false);
                    if a1 != a2 {
                        ctx.violation("order/triple", w.clone(), format!("{:?} and {:?} answer differently at {}", texts[0], texts[k], v.text()));
                        break 'outer;
                    }
                }
            }
            // and the conjunction of three: release versions need all three
            if !v.is_pre() {
                let want = sides.iter().all(|s| sat(&s.range, v));
                if first.unwrap_or(false) != want {
                    ctx.violation("conj/triple", w.clone(), format!("{:?}: release {} satisfies={} but sides all={}", texts[0], v.text(), first.unwrap_or(false), want));
                    break 'outer;
                }
            }
        }
    }
}
