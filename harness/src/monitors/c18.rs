//! C18 — tuple conversions build the same version as parsing the dotted string.

use crate::observe::guarded;
use crate::runner::*;
use nodejs_semver::{Identifier, Version};
use serde_json::json;

pub const RULE: &str = "cases = (a,b,c) and (a,b,c,d) tuples of each of the ten integer types; U8 all 64^3 (quick) / 256^3 (thorough) u8 triples and a 24-value (quick) / 40-value subset^4 of quadruples, I8 all non-negative i8 triples 128^3 (thorough) / 32^3 (quick), W 17 boundary values in every position for all ten types, R random values of every magnitude up to MAX_SAFE for all types that can hold them; oracle = all five fields equal those of Version::parse(\"a.b.c\") / parse(\"a.b.c-d\"), prints as that string, pre_release == [Numeric(d)], all integer types that can hold the values agree; non-trivial = not all components equal (a swap would show); distinct = distinct (type, tuple)";

fn same_fields(a: &Version, b: &Version) -> bool {
    a.major == b.major && a.minor == b.minor && a.patch == b.patch && a.pre_release == b.pre_release && a.build == b.build
}

fn check(ctx: &mut Ctx, ty: &str, vals: &[u64], got: Result<Version, crate::observe::PanicInfo>) {
    ctx.eval(1);
    let arity = vals.len();
    let text = if arity == 3 { format!("{}.{}.{}", vals[0], vals[1], vals[2]) } else { format!("{}.{}.{}-{}", vals[0], vals[1], vals[2], vals[3]) };
    ctx.begin(|| format!("C18 {} tuple {:?}", ty, vals));
    let w = json!({"type": ty, "tuple": vals});
    let got = match got {
        Ok(g) => g,
        Err(p) => {
            ctx.violation(&format!("{}/{}/panic", ty, arity), w, p.message);
            return;
        }
    };
    if !(vals.iter().all(|v| *v == vals[0])) {
        ctx.nontrivial(&format!("{}{:?}", ty, vals));
    }
    let parsed = match guarded(|| Version::parse(&text)) {
        Ok(Ok(p)) => p,
        _ => {
            // every value here is within MAX_SAFE_INTEGER, so the dotted string is a canonical
            // version: if parsing it fails, the conversion and the parse cannot be equal
            ctx.violation(&format!("{}/{}/parse-rejects-dotted-string", ty, arity), w, format!("Version::parse({:?}) fails although From<{}> builds that version", text, ty));
            return;
        }
    };
    if !same_fields(&got, &parsed) {
        ctx.violation(&format!("{}/{}/fields", ty, arity), w, format!("From<{}> gave {:?}, parse({:?}) gave {:?}", ty, got, text, parsed));
        return;
    }
    // the print is preceded by prints of another tuple-built version into writers that fail
    let shown = crate::observe::print_after_failed_prints(&Version::from((7u8, 8, 9, 10)), &got);
    if shown != text || got.to_string() != text {
        ctx.violation(&format!("{}/{}/display", ty, arity), w, format!("prints {:?} (after failed prints of another version) / {:?}, expected {:?}", shown, got.to_string(), text));
        return;
    }
    if arity == 4 && got.pre_release != vec![Identifier::Numeric(vals[3])] {
        ctx.violation(&format!("{}/{}/prerelease", ty, arity), w, format!("pre_release = {:?}", got.pre_release));
        return;
    }
    // "prints as that string" whatever format specification the caller uses (a sample of the
    // tuples: the specification, not the value, is the dimension here)
    if vals.iter().sum::<u64>() % 7 == 0 || vals.iter().any(|v| *v > 9) {
        ctx.eval(1);
        match guarded(|| crate::observe::fmt_spec_mismatch(&got)) {
            Ok(Some(m)) => ctx.violation(&format!("{}/{}/display-under-format-spec", ty, arity), w, m),
            Ok(None) => {}
            Err(p) => ctx.violation(&format!("{}/{}/display-panic", ty, arity), w, p.message),
        }
    }
}

macro_rules! conv3 {
    ($t:ty, $a:expr, $b:expr, $c:expr) => {
        guarded(|| Version::from(($a as $t, $b as $t, $c as $t)))
    };
}
macro_rules! conv4 {
    ($t:ty, $a:expr, $b:expr, $c:expr, $d:expr) => {
        guarded(|| Version::from(($a as $t, $b as $t, $c as $t, $d as $t)))
    };
}

fn all_types3(ctx: &mut Ctx, a: u64, b: u64, c: u64) {
    let m = a.max(b).max(c);
    let v = [a, b, c];
    if m <= u8::MAX as u64 {
        check(ctx, "u8", &v, conv3!(u8, a, b, c));
    }
    if m <= i8::MAX as u64 {
        check(ctx, "i8", &v, conv3!(i8, a, b, c));
    }
    if m <= u16::MAX as u64 {
        check(ctx, "u16", &v, conv3!(u16, a, b, c));
    }
    if m <= i16::MAX as u64 {
        check(ctx, "i16", &v, conv3!(i16, a, b, c));
    }
    if m <= u32::MAX as u64 {
        check(ctx, "u32", &v, conv3!(u32, a, b, c));
    }
    if m <= i32::MAX as u64 {
        check(ctx, "i32", &v, conv3!(i32, a, b, c));
    }
    check(ctx, "u64", &v, conv3!(u64, a, b, c));
    check(ctx, "i64", &v, conv3!(i64, a, b, c));
    check(ctx, "usize", &v, conv3!(usize, a, b, c));
    check(ctx, "isize", &v, conv3!(isize, a, b, c));
}

fn all_types4(ctx: &mut Ctx, a: u64, b: u64, c: u64, d: u64) {
    let m = a.max(b).max(c).max(d);
    let v = [a, b, c, d];
    if m <= u8::MAX as u64 {
        check(ctx, "u8", &v, conv4!(u8, a, b, c, d));
    }
    if m <= i8::MAX as u64 {
        check(ctx, "i8", &v, conv4!(i8, a, b, c, d));
    }
    if m <= u16::MAX as u64 {
        check(ctx, "u16", &v, conv4!(u16, a, b, c, d));
    }
    if m <= i16::MAX as u64 {
        check(ctx, "i16", &v, conv4!(i16, a, b, c, d));
    }
    if m <= u32::MAX as u64 {
        check(ctx, "u32", &v, conv4!(u32, a, b, c, d));
    }
    if m <= i32::MAX as u64 {
        check(ctx, "i32", &v, conv4!(i32, a, b, c, d));
    }
    check(ctx, "u64", &v, conv4!(u64, a, b, c, d));
    check(ctx, "i64", &v, conv4!(i64, a, b, c, d));
    check(ctx, "usize", &v, conv4!(usize, a, b, c, d));
    check(ctx, "isize", &v, conv4!(isize, a, b, c, d));
}

pub fn run(ctx: &mut Ctx) {
    let full = ctx.tier == Tier::Thorough;
    ctx.stratum("U8-triples", full);
    let n8: u64 = if full { 256 } else { 64 };
    let step = 256 / n8;
    for a in 0..n8 {
        if !ctx.take() {
            continue;
        }
        ctx.class("u8/3");
        for b in 0..n8 {
            for c in 0..n8 {
                let (x, y, z) = (a * step + (a % step.max(1)) % step, b * step, 255 - c * step);
                let v = [x, y, z];
                check(ctx, "u8", &v, conv3!(u8, x, y, z));
            }
        }
    }
    ctx.stratum("I8-triples", full);
    let n7: u64 = if full { 128 } else { 32 };
    let step7 = 128 / n7;
    for a in 0..n7 {
        if !ctx.take() {
            continue;
        }
        ctx.class("i8/3");
        for b in 0..n7 {
            for c in 0..n7 {
                let (x, y, z) = (a * step7, 127 - b * step7, c * step7);
                let v = [x, y, z];
                check(ctx, "i8", &v, conv3!(i8, x, y, z));
            }
        }
    }
    ctx.stratum("Q-quadruples-small-types", true);
    let sub: Vec<u64> = if full { (0..40).map(|i| (i * 255) / 39).collect() } else { (0..24).map(|i| (i * 255) / 23).collect() };
    for &a in &sub {
        if !ctx.take() {
            continue;
        }
        ctx.class("u8/4");
        ctx.class("i8/4");
        for &b in &sub {
            for &c in &sub {
                for &d in &sub {
                    let v = [a, b, c, d];
                    check(ctx, "u8", &v, conv4!(u8, a, b, c, d));
                    if a.max(b).max(c).max(d) <= 127 {
                        check(ctx, "i8", &v, conv4!(i8, a, b, c, d));
                    }
                }
            }
        }
    }
    ctx.stratum("W-boundary-values-all-types", true);
    let bv: Vec<u64> = vec![0, 1, 2, 127, 128, 255, 256, 32767, 32768, 65535, 65536, (1 << 31) - 1, 1 << 31, (1u64 << 32) - 1, 1 << 32, crate::mv::MAX_SAFE - 1, crate::mv::MAX_SAFE, 100, 10_000, 100_000_000, 300_000_000, 2_100_000_000, 9_999_999_999, 10_000_000_000, 1_000_000_000_000, 900_719_900_000_000];
    for &a in &bv {
        for &b in &bv {
            if !ctx.take() {
                continue;
            }
            for &c in &bv {
                ctx.class(&format!("all-types/3/max<2^{}", 64 - a.max(b).max(c).leading_zeros()));
                all_types3(ctx, a, b, c);
                for &d in &[0u64, 1, 255, 65536, crate::mv::MAX_SAFE, 100_000_000, 300_000_000, 2_100_000_000, 10_000_000_000, 900_719_900_000_000] {
                    ctx.class(&format!("all-types/4/max<2^{}", 64 - a.max(b).max(c).max(d).leading_zeros()));
                    all_types4(ctx, a, b, c, d);
                }
            }
        }
    }
    // values with binary / decimal structure, one position at a time (all ten types; a value a
    // type cannot hold is skipped by the per-type helpers)
    ctx.stratum("B2-structured-values-each-position", true);
    for &x in crate::gen::structured_numbers().iter().filter(|x| **x <= crate::mv::MAX_SAFE) {
        if !ctx.take() {
            continue;
        }
        ctx.class(&format!("structured/max<2^{}", 64 - x.leading_zeros()));
        all_types3(ctx, x, 2, 3);
        all_types3(ctx, 1, x, 3);
        all_types3(ctx, 1, 2, x);
        all_types4(ctx, 1, 2, 3, x);
        all_types4(ctx, x, 0, x, x);
    }
    ctx.stratum("R-random-values-wide-types", false);
    let nr = ctx.tier.n(20_000, 2_000_000);
    for i in 0..nr {
        if !ctx.take() {
            continue;
        }
        let mut r = crate::rng::Rng::for_case(ctx.seed, "C18-R", i);
        // values spread over all magnitudes up to MAX_SAFE
        let mut val = |r: &mut crate::rng::Rng| -> u64 {
            let bits = 1 + r.below(50) as u32;
            (r.next() & ((1u64 << bits) - 1)).min(crate::mv::MAX_SAFE)
        };
        let (a, b, c, mut d) = (val(&mut r), val(&mut r), val(&mut r), val(&mut r));
        if r.chance(1, 4) {
            // decimal-round values: k x 10^e
            d = ((1 + r.below(99)) as u64).saturating_mul(10u64.pow(r.below(14) as u32)).min(crate::mv::MAX_SAFE);
        }
        ctx.class("random/all-types");
        all_types3(ctx, a, b, c);
        all_types4(ctx, a, b, c, d);
    }
    ctx.sample(|| json!({"note": "tuples are enumerated, e.g. (u8) (0,0,255), (i8) (0,127,0), all ten types at (MAX_SAFE,0,1)"}));
}
