//! C12 — printing a version and parsing it back returns the same version.

use crate::mv::*;
use crate::observe::guarded;
use crate::rng::Rng;
use crate::runner::*;
use crate::vgrammar::*;
use crate::vstrings::*;
use nodejs_semver::{Identifier, Version};
use serde_json::json;

pub const RULE: &str = "cases = versions obtained from Version::parse on the C05 workload (every accepted string of the exhaustive alphabet enumeration, loose spellings, near-limit lengths and numbers) and versions built from canonical identifier lists through the public fields; oracle = to_string re-parses, all five fields equal (explicit field comparison, `==` ignores build), printed form is a fixed point, serde_json gives exactly the printed string and reads it back to the same fields; non-trivial = the version carries a prerelease or build tag, or was spelled loosely; distinct = distinct (source text) of the version";

fn fields_equal(a: &Version, b: &Version) -> Option<&'static str> {
    if a.major != b.major {
        Some("major")
    } else if a.minor != b.minor {
        Some("minor")
    } else if a.patch != b.patch {
        Some("patch")
    } else if a.pre_release != b.pre_release {
        Some("pre_release")
    } else if a.build != b.build {
        Some("build")
    } else {
        None
    }
}

fn shape_class(v: &Version, printed: &str) -> String {
    let k = |ids: &Vec<Identifier>| -> String {
        if ids.is_empty() {
            return "none".into();
        }
        let mut s = vec![];
        for i in ids.iter().take(3) {
            s.push(match i {
                Identifier::Numeric(_) => "num",
                Identifier::AlphaNumeric(t) if t.bytes().all(|b| b == b'-') => "hyphens",
                Identifier::AlphaNumeric(t) if t.bytes().all(|b| b.is_ascii_digit()) => "digits-as-alpha",
                Identifier::AlphaNumeric(t) if t.as_bytes()[0].is_ascii_digit() => "digit-initial",
                Identifier::AlphaNumeric(_) => "alpha",
            });
        }
        s.join(",")
    };
    let len = if printed.len() > 256 { "len>256" } else if printed.len() >= 250 { "len~256" } else { "short" };
    format!("pre[{}] build[{}] {}", k(&v.pre_release), k(&v.build), len)
}

pub fn judge(ctx: &mut Ctx, v: &Version, source: &str, loose: bool) {
    ctx.begin(|| format!("C12 roundtrip of {:?}", source));
    ctx.eval(1);
    let w = json!({"source": source});
    // (printing is preceded by prints of another value into writers that fail: a Display impl
    //  must not carry anything over from one call to the next)
    //  `other` differs from v in build metadata only: equal for `==`, a different text
    let other = {
        let mut o = v.clone();
        o.build = if v.build.is_empty() { vec![nodejs_semver::Identifier::AlphaNumeric("zz9".into())] } else { vec![] };
        o
    };
    let printed = match guarded(|| {
        let plain = v.to_string();
        let after = crate::observe::print_after_failed_prints(&other, v);
        let _ = other.to_string();
        let third = v.to_string();
        (plain, after, third)
    }) {
        Ok((plain, after, third)) => {
            if plain != after || plain != third {
                ctx.violation("display-depends-on-earlier-prints", w, format!("printed {:?}; after (failed) prints of a build-only variant {:?}; after a successful print of that variant {:?}", plain, after, third));
                return;
            }
            plain
        }
        Err(p) => {
            ctx.violation(&format!("panic/{}", p.site), w, p.message);
            return;
        }
    };
    let cls = shape_class(v, &printed);
    ctx.class(&format!("{}{}", cls, if loose { " loose-source" } else { "" }));
    // the printed form is the same text under any format specification (padding outside only)
    if printed.len() < 80 {
        if let Ok(Some(m)) = guarded(|| crate::observe::fmt_spec_mismatch(v)) {
            ctx.violation(&format!("display-under-format-spec/{}", cls), w, m);
            return;
        }
    }
    if !v.pre_release.is_empty() || !v.build.is_empty() || loose {
        ctx.nontrivial(source);
    }
    ctx.sample(|| json!({"source": source, "printed": printed}));
    let back = match guarded(|| Version::parse(&printed)) {
        Ok(b) => b,
        Err(p) => {
            ctx.violation(&format!("panic/{}", p.site), w, p.message);
            return;
        }
    };
    let back = match back {
        Ok(b) => b,
        Err(e) => {
            // the one way printing can outgrow the limit: a hyphen-less prerelease gains its hyphen
            let hyphenless = matches!(classify(source), VClass::Max(ref p) if p.feats.hyphenless);
            let sub = if printed.len() == 257 && source.len() == 256 && hyphenless { "maxlen-hyphenless" } else { "other" };
            let sig = if sub == "maxlen-hyphenless" { "reparse-fails/maxlen-hyphenless".to_string() } else { format!("reparse-fails/{}/{}", sub, cls) };
            ctx.violation(&sig, w, format!("{:?} parsed, printed as {:?} ({} bytes), which fails to re-parse: {}", source, printed, printed.len(), e));
            return;
        }
    };
    if let Some(f) = fields_equal(v, &back) {
        ctx.violation(&format!("fields-differ/{}/{}", f, cls), w, format!("{:?} -> {:?} -> {:?}: field {} differs ({:?} vs {:?})", source, printed, back.to_string(), f, v, back));
        return;
    }
    // str::parse::<Version>() must read the printed form like Version::parse
    ctx.eval(1);
    match guarded(|| printed.parse::<Version>()) {
        Ok(Ok(f)) => {
            if let Some(fl) = fields_equal(&back, &f) {
                ctx.violation(&format!("from_str-differs/{}/{}", fl, cls), w, format!("{:?} read by str::parse differs from Version::parse in {}", printed, fl));
                return;
            }
        }
        Ok(Err(e)) => {
            ctx.violation(&format!("from_str-fails/{}", cls), w, format!("{:?} is accepted by Version::parse but str::parse fails: {}", printed, e));
            return;
        }
        Err(p) => {
            ctx.violation(&format!("panic/from_str/{}", p.site), w, p.message);
            return;
        }
    }
    let again = back.to_string();
    if again != printed {
        ctx.violation(&format!("not-fixed-point/{}", cls), w, format!("printed {:?}, re-parsed and printed {:?}", printed, again));
        return;
    }
    // serde: JSON is exactly the printed string, and reads back to the same fields
    ctx.eval(1);
    match guarded(|| serde_json::to_string(v)) {
        Ok(Ok(j)) => {
            let expect = serde_json::to_string(&printed).unwrap();
            if j != expect {
                ctx.violation(&format!("json/not-printed-string/{}", cls), w, format!("serialized {} but printed form is {}", j, expect));
                return;
            }
            match guarded(|| crate::json_front_ends!(Version, &j)) {
                Ok(all) => {
                    for (front, res) in all {
                        match res {
                            Ok(d) => {
                                if let Some(f) = fields_equal(v, &d) {
                                    ctx.violation(&format!("json/fields-differ/{}/{}", f, cls), w, format!("JSON {} deserialized through {} with a different {}", j, front, f));
                                    return;
                                }
                            }
                            Err(e) => {
                                ctx.violation(&format!("json/deserialize-fails/{}", cls), w, format!("JSON {} does not deserialize through serde_json::{}: {}", j, front, e));
                                return;
                            }
                        }
                    }
                }
                Err(p) => ctx.violation(&format!("panic/{}", p.site), w, p.message),
            }
        }
        Ok(Err(e)) => ctx.violation(&format!("json/serialize-fails/{}", cls), w, e.to_string()),
        Err(p) => ctx.violation(&format!("panic/{}", p.site), w, p.message),
    }
}

fn from_text(ctx: &mut Ctx, s: &str) {
    if let Ok(Ok(v)) = guarded(|| Version::parse(s)) {
        // only versions parsed from whole well-formed strings are in scope (what Version::parse
        // accepts beyond that is C05's subject)
        match classify(s) {
            VClass::Must(_) => judge(ctx, &v, s, false),
            VClass::Max(_) => judge(ctx, &v, s, true),
            VClass::Out { .. } => ctx.skip("source string outside the version grammar (C05's subject)"),
        }
    }
}

pub fn run(ctx: &mut Ctx) {
    ctx.stratum("X-accepted-strings-of-exhaustive-alphabet", true);
    let max_len = ctx.tier.pick(7, 9);
    exhaustive(ctx, max_len, &mut |ctx, s| from_text(ctx, s));
    ctx.stratum("S-loose-spellings", false);
    let n = ctx.tier.n(20_000, 2_000_000);
    for i in 0..n {
        if ctx.take() {
            let mut r = Rng::for_case(ctx.seed, "C12-S", i);
            let v = crate::gen::rand_version_mix(&mut r, 1, 2);
            let mut ss = vec![];
            spellings(&v, &mut |s| ss.push(s.to_string()));
            for s in ss {
                from_text(ctx, &s);
            }
        }
    }
    ctx.stratum("L-near-limits", false);
    for i in 0..ctx.tier.pick(4u64, 64u64) {
        if ctx.take() {
            let mut r = Rng::for_case(ctx.seed, "C12-L", i);
            let mut ss = vec![];
            near_limits(&mut r, &mut |s| ss.push(s.to_string()));
            for s in ss {
                from_text(ctx, &s);
            }
        }
    }
    // identifier counts around 8/16/32/64 (and beyond what MAX_LENGTH lets back in: K2's
    // neighbourhood is the length, not the count) built through the fields
    ctx.stratum("FI-field-built-identifier-counts", false);
    let nfi = ctx.tier.n(200, 20_000);
    for i in 0..nfi {
        if ctx.take() {
            let mut r = Rng::for_case(ctx.seed, "C12-FI", i);
            let n = *r.pick(&[7usize, 8, 9, 15, 16, 17, 31, 32, 33, 63, 64, 65, 100]);
            let atoms = ["a", "0", "7", "-", "x", "Z", "rc", "10"];
            let mut mv = crate::mv::MV::new(1, 2, 3);
            match r.below(3) {
                0 => mv.pre = (0..n).map(|_| r.pick(&atoms).to_string()).collect(),
                1 => {
                    mv.pre = vec!["rc".into()];
                    mv.build = (0..n).map(|_| r.pick(&atoms).to_string()).collect();
                }
                _ => {
                    mv.pre = (0..n / 2).map(|_| r.pick(&atoms).to_string()).collect();
                    mv.build = (0..n / 2).map(|_| r.pick(&atoms).to_string()).collect();
                }
            }
            if mv.text().len() > nodejs_semver::MAX_LENGTH {
                ctx.skip("canonical text longer than MAX_LENGTH: no parseable string denotes this field combination");
                continue;
            }
            judge(ctx, &mv.to_crate(), &format!("fields:{}", mv.text()), false);
        }
    }
    // printed length exactly 250..=260 bytes, every shape (build only / tag only / both;
    // hyphens present or absent; letters or digits), built through the fields
    ctx.stratum("FL-field-built-at-exact-printed-lengths", true);
    for len in 250..=260usize {
        for shape in 0..8usize {
            if !ctx.take() {
                continue;
            }
            let mut mv = crate::mv::MV::new(1, 2, 3);
            let head = 5; // "1.2.3"
            let fill = |n: usize, c: char, dot_every: usize| -> Vec<String> {
                // identifiers of `c`s separated by dots, n characters in all (dots included)
                let mut out = vec![];
                let mut left = n;
                while left > 0 {
                    let take = left.min(dot_every);
                    out.push(std::iter::repeat(c).take(take).collect::<String>());
                    left -= take;
                    if left > 0 {
                        left -= 1; // the dot
                        if left == 0 {
                            out.last_mut().unwrap().push(c);
                        }
                    }
                }
                out
            };
            match shape {
                0 => mv.build = fill(len - head - 1, 'b', 300),
                1 => mv.build = fill(len - head - 1, '7', 18),
                2 => mv.build = fill(len - head - 1, 'b', 16),
                3 => mv.pre = fill(len - head - 1, 'a', 300),
                4 => mv.pre = fill(len - head - 1, 'a', 16),
                5 => {
                    mv.pre = vec!["rc".into()];
                    mv.build = fill(len - head - 4, 'b', 40);
                }
                6 => {
                    mv.pre = vec!["x-y".into()];
                    mv.build = fill(len - head - 5, 'Z', 300);
                }
                _ => {
                    mv = crate::mv::MV::new(10, 20, 30);
                    mv.build = fill(len - 8 - 1, '7', 1);
                }
            }
            // numeric identifiers must stay below 2^64 to have a canonical field form
            if mv.pre.iter().chain(mv.build.iter()).any(|i| all_digits(i) && i.parse::<u64>().is_err()) {
                continue;
            }
            // a field combination whose canonical text exceeds MAX_LENGTH is denoted by no
            // parseable string (the length limit is part of the grammar, C05): out of scope
            if mv.text().len() > nodejs_semver::MAX_LENGTH {
                ctx.skip("canonical text longer than MAX_LENGTH: no parseable string denotes this field combination");
                continue;
            }
            judge(ctx, &mv.to_crate(), &format!("fields:len{}:shape{}", mv.text().len(), shape), false);
        }
    }
    ctx.stratum("F-built-from-canonical-fields", false);
    let n = ctx.tier.n(50_000, 5_000_000);
    for i in 0..n {
        if ctx.take() {
            let mut r = Rng::for_case(ctx.seed, "C12-F", i);
            let mv = crate::gen::rand_version_mix(&mut r, 1, 3);
            // canonical identifiers only: an all-digit identifier beyond u64 has no canonical
            // field form (it would be an AlphaNumeric that prints like a number)
            if mv.pre.iter().chain(mv.build.iter()).any(|i| all_digits(i) && i.parse::<u64>().is_err()) {
                continue;
            }
            judge(ctx, &mv.to_crate(), &format!("fields:{}", mv.text()), false);
        }
    }
}
