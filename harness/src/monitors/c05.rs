//! C05 — Version::parse accepts only whole well-formed version strings, faithfully.

use crate::mv::*;
use crate::observe::guarded;
use crate::rng::Rng;
use crate::runner::*;
use crate::vgrammar::*;
use crate::vstrings::*;
use nodejs_semver::Version;
use serde_json::json;

pub const RULE: &str = "cases = strings given to Version::parse (and str::parse / serde_json::from_str); X every string over the 9-character version alphabet {0,1,9,a,-,+,.,v,blank} up to length 7 (quick) / 10 (thorough) (exhaustive), N every one-edit neighbour (insert/delete/replace/append over 21 characters incl. multi-byte, NUL, newline) of a canonical corpus, J the junk examples of the statement, S loose spellings of canonical versions, L lengths 250..260 and components around MAX_SAFE_INTEGER / 2^64, R random token soups; oracle = hand-written recogniser with denotation: strict SemVer strings must parse, a parse may succeed only inside the loose envelope (blanks, v/V, leading zeros, letter-initial prerelease without hyphen), returned fields must equal the denoted numbers and identifiers; non-trivial = the string has a well-formed `N.N.N` core prefix (so acceptance hinges on what follows); distinct = distinct strings";

pub fn judge(ctx: &mut Ctx, s: &str, full: bool) {
    ctx.begin(|| format!("C05 parse {:?}", s));
    let cls = classify(s);
    ctx.eval(1);
    let res = match guarded(|| Version::parse(s)) {
        Ok(r) => r,
        Err(p) => {
            ctx.violation(&format!("panic/{}", p.site), json!({"input": s}), p.message);
            return;
        }
    };
    let (class_key, core_ok) = match &cls {
        VClass::Must(v) => (format!("must:{}:{}", v.feats.describe(), res.is_ok()), true),
        VClass::Max(v) => (format!("loose:{}:{}", v.feats.describe(), res.is_ok()), true),
        VClass::Out { core_ok, why, at } => (format!("out:{}:{}:{}", why, char_class(s, *at), res.is_ok()), *core_ok),
    };
    ctx.class(&class_key);
    if core_ok {
        ctx.nontrivial(s);
        ctx.sample(|| json!({"input": s, "model": class_key, "crate": res.as_ref().map(|v| v.to_string()).map_err(|e| e.to_string())}));
    }
    match (&cls, &res) {
        (VClass::Must(vp), Err(e)) => {
            ctx.violation(&format!("rejects-canonical/{}", vp.feats.describe()), json!({"input": s}), format!("strict SemVer string {:?} rejected: {}", s, e));
        }
        (VClass::Out { why, at, .. }, Ok(v)) => {
            let cc = char_class(s, *at);
            let sig = if cc == "non-ascii" { "accepts-junk/nonascii-identifier".to_string() } else { format!("accepts-junk/{}/{}", why, cc) };
            ctx.violation(&sig, json!({"input": s}), format!("{:?} is not a whole version string ({} at byte {}) but was accepted as {}", s, why, at, v));
        }
        (VClass::Must(vp) | VClass::Max(vp), Ok(v)) => {
            let field = if v.major != vp.major {
                Some("major")
            } else if v.minor != vp.minor {
                Some("minor")
            } else if v.patch != vp.patch {
                Some("patch")
            } else if !ids_match(&vp.pre, &v.pre_release) {
                Some("pre_release")
            } else if !ids_match(&vp.build, &v.build) {
                Some("build")
            } else {
                None
            };
            if let Some(f) = field {
                ctx.violation(&format!("unfaithful/{}", f), json!({"input": s}), format!("{:?} parsed to {:?}; the text denotes {}.{}.{} pre={:?} build={:?}", s, v, vp.major, vp.minor, vp.patch, vp.pre, vp.build));
            }
        }
        _ => {}
    }
    if full || res.is_ok() {
        ctx.eval(2);
        let fs = guarded(|| s.parse::<Version>());
        let quoted = serde_json::to_string(s).unwrap();
        let js = guarded(|| serde_json::from_str::<Version>(&quoted));
        let same = |a: &Version, b: &Version| a == b && a.build == b.build;
        match (fs, js) {
            (Ok(fs), Ok(js)) => {
                let ok1 = match (&res, &fs) {
                    (Ok(a), Ok(b)) => same(a, b),
                    (Err(_), Err(_)) => true,
                    _ => false,
                };
                let ok2 = match (&res, &js) {
                    (Ok(a), Ok(b)) => same(a, b),
                    (Err(_), Err(_)) => true,
                    _ => false,
                };
                if !ok1 {
                    ctx.violation("entry-points-differ/from_str", json!({"input": s}), "str::parse::<Version> and Version::parse disagree".into());
                } else if !ok2 {
                    ctx.violation("entry-points-differ/serde", json!({"input": s}), "serde_json::from_str::<Version> and Version::parse disagree".into());
                }
            }
            (Err(p), _) | (_, Err(p)) => ctx.violation(&format!("panic/{}", p.site), json!({"input": s}), p.message),
        }
    }
}

pub const JUNK: &[&str] = &["1.2.3.4", "1.2.3 foo", "1.2.3-", "1.2.3+", "1.2.3-a..b", "1.2.3-é", "1.2.3-Ł", "1.2.3+a+b", "1.2.3-a+", "1.2", "1", "", "v", "1.2.3-a b", "1.2.3\u{0}", "1.2.3-a.", "1.2.3+.a", "1..3", ".1.2.3", "1.2.3.", "-1.2.3", "+1.2.3", "1.2.-3", "1.2.3 -a", "1.2.3- a", "vv1.2.3", "1.2.3v", "1. 2.3", "1.2.3-a_b", "1.2.3-ａ"];

pub fn run(ctx: &mut Ctx) {
    ctx.stratum("J-junk-examples", true);
    for s in JUNK {
        if ctx.take() {
            judge(ctx, s, true);
        }
    }
    ctx.stratum("X-exhaustive-version-alphabet", true);
    let max_len = ctx.tier.pick(7, 10);
    let mut n = 0u64;
    exhaustive(ctx, max_len, &mut |ctx, s| {
        n += 1;
        judge(ctx, s, n % 64 == 0);
    });
    ctx.stratum("N-one-edit-neighbourhood", true);
    let corpus = canonical_corpus(ctx.seed, ctx.tier.pick(120, 1500));
    for c in &corpus {
        if ctx.take() {
            judge(ctx, c, true);
            let mut v = vec![];
            one_edits(c, &mut |s| v.push(s.to_string()));
            for s in v {
                judge(ctx, &s, false);
            }
        }
    }
    ctx.stratum("S-loose-spellings", false);
    let n = ctx.tier.n(3_000, 300_000);
    for i in 0..n {
        if ctx.take() {
            let mut r = Rng::for_case(ctx.seed, "C05-S", i);
            let v = crate::gen::rand_version_mix(&mut r, 1, 2);
            let mut ss = vec![];
            spellings(&v, &mut |s| ss.push(s.to_string()));
            for s in ss {
                judge(ctx, &s, true);
            }
        }
    }
    ctx.stratum("L-near-limits", false);
    for i in 0..ctx.tier.pick(4u64, 64u64) {
        if ctx.take() {
            let mut r = Rng::for_case(ctx.seed, "C05-L", i);
            let mut ss = vec![];
            near_limits(&mut r, &mut |s| ss.push(s.to_string()));
            for s in ss {
                judge(ctx, &s, true);
            }
        }
    }
    ctx.stratum("R-random-token-soups", false);
    let n = ctx.tier.n(100_000, 10_000_000);
    for i in 0..n {
        if ctx.take() {
            let mut r = Rng::for_case(ctx.seed, "C05-R", i);
            let mut ss = vec![];
            random_strings(&mut r, &mut |s| ss.push(s.to_string()));
            for s in ss {
                judge(ctx, &s, false);
            }
        }
    }
    let _ = MAX_SAFE;
}
