pub mod c01;
pub mod c02;
pub mod c03;
pub mod c04;
pub mod c05;
pub mod c06;
pub mod c12;
pub mod c13;
pub mod c14;
pub mod c15;
pub mod c17;
pub mod c18;
pub mod c07;
pub mod c08;
pub mod c09;
pub mod c10;
pub mod c11;
pub mod c16;

use crate::runner::*;

pub struct Info {
    pub id: &'static str,
    pub rule: &'static str,
    pub floor_classes: usize,
    pub assumptions: &'static [&'static str],
}

pub const COMMON_ASSUMPTIONS: &[&str] = &[
    "verdict covers only the executions of this run (exploration, not proof)",
    "reference models in /verif/harness/src (SemVer §11 order over identifier text, documented npm desugaring table, interval model) are correct; they are cross-checked against frozen answers of real node-semver 7.6.2 in /verif/golden at the start of every run",
    "crate values are built through its public fields / parsed from text; bounds are observed through the read-only hook Range::verif_bounds() (cfg nodejs_semver_verif)",
];

pub fn info(id: &str) -> Option<Info> {
    Some(match id {
        "C01" => Info { id: "C01", rule: c01::RULE, floor_classes: 100, assumptions: COMMON_ASSUMPTIONS },
        "C02" => Info { id: "C02", rule: c02::RULE, floor_classes: 100, assumptions: COMMON_ASSUMPTIONS },
        "C03" => Info { id: "C03", rule: c03::RULE, floor_classes: 100, assumptions: COMMON_ASSUMPTIONS },
        "C04" => Info { id: "C04", rule: c04::RULE, floor_classes: 20, assumptions: COMMON_ASSUMPTIONS },
        "C05" => Info { id: "C05", rule: c05::RULE, floor_classes: 40, assumptions: COMMON_ASSUMPTIONS },
        "C11" => Info { id: "C11", rule: c11::RULE, floor_classes: 30, assumptions: COMMON_ASSUMPTIONS },
        "C12" => Info { id: "C12", rule: c12::RULE, floor_classes: 10, assumptions: COMMON_ASSUMPTIONS },
        "C17" => Info { id: "C17", rule: c17::RULE, floor_classes: 10, assumptions: COMMON_ASSUMPTIONS },
        "C18" => Info { id: "C18", rule: c18::RULE, floor_classes: 6, assumptions: COMMON_ASSUMPTIONS },
        "C06" => Info { id: "C06", rule: c06::RULE, floor_classes: 50, assumptions: COMMON_ASSUMPTIONS },
        "C07" => Info { id: "C07", rule: c07::RULE, floor_classes: 200, assumptions: COMMON_ASSUMPTIONS },
        "C08" => Info { id: "C08", rule: c08::RULE, floor_classes: 200, assumptions: COMMON_ASSUMPTIONS },
        "C09" => Info { id: "C09", rule: c09::RULE, floor_classes: 200, assumptions: COMMON_ASSUMPTIONS },
        "C10" => Info { id: "C10", rule: c10::RULE, floor_classes: 200, assumptions: COMMON_ASSUMPTIONS },
        "C13" => Info { id: "C13", rule: c13::RULE, floor_classes: 20, assumptions: COMMON_ASSUMPTIONS },
        "C14" => Info { id: "C14", rule: c14::RULE, floor_classes: 10, assumptions: COMMON_ASSUMPTIONS },
        "C15" => Info { id: "C15", rule: c15::RULE, floor_classes: 10, assumptions: COMMON_ASSUMPTIONS },
        "C16" => Info { id: "C16", rule: c16::RULE, floor_classes: 40, assumptions: COMMON_ASSUMPTIONS },
        _ => return None,
    })
}

pub fn run(id: &str, ctx: &mut Ctx) {
    match id {
        "C01" => c01::run(ctx),
        "C02" => c02::run(ctx),
        "C03" => c03::run(ctx),
        "C04" => c04::run(ctx),
        "C05" => c05::run(ctx),
        "C11" => c11::run(ctx),
        "C12" => c12::run(ctx),
        "C17" => c17::run(ctx),
        "C18" => c18::run(ctx),
        "C06" => c06::run(ctx),
        "C07" => c07::run(ctx),
        "C08" => c08::run(ctx),
        "C09" => c09::run(ctx),
        "C10" => c10::run(ctx),
        "C13" => c13::run(ctx),
        "C14" => c14::run(ctx),
        "C15" => c15::run(ctx),
        "C16" => c16::run(ctx),
        _ => panic!("unknown property {}", id),
    }
}

pub fn shards_for(_id: &str, tier: Tier) -> usize {
    let cores = std::thread::available_parallelism().map(|n| n.get()).unwrap_or(4);
    match tier {
        Tier::Quick => cores.min(8).max(1),
        Tier::Thorough => cores.min(16).max(1),
    }
}
