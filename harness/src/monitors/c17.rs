//! C17 — parse errors report the original input, an in-range offset and the right kind.

use crate::observe::{guarded, message_class};
use crate::rng::Rng;
use crate::runner::*;
use crate::vgrammar::*;
use crate::vstrings::*;
use miette::Diagnostic;
use nodejs_semver::{Range, SemverError, SemverErrorKind, Version};
use serde_json::json;

pub const RULE: &str = "cases = strings rejected by Version::parse or Range::parse: every rejected string of the exhaustive version alphabet (length <=6 quick / <=9 thorough) and of a range alphabet, one-edit neighbours with multi-byte / newline / NUL characters, multi-line inputs, failures at the first / middle / last component, lengths 255..260 (ASCII and multi-byte endings), numbers at MAX_SAFE_INTEGER±1 and 2^64±1; oracle = input() equals the string passed in, offset() <= len and on a char boundary, span offset = offset, location() = (newlines before offset, bytes since the last newline; a char-counted column is also accepted), all miette Diagnostic accessors return, label span lies inside the source, Narratable/JSON handlers render, kind clauses (MaxLengthError, MaxIntError(value) at the component, ParseIntError, NoValidRanges); non-trivial = the error is not at offset 0 of a single-line ASCII input (offset, line or multi-byte handling matters); distinct = distinct input strings";

fn pos_class(s: &str, off: usize) -> String {
    let where_ = if off == 0 { "first" } else if off >= s.len() { "end" } else { "middle" };
    let enc = if s.is_ascii() { "ascii" } else { "multibyte" };
    let lines = if s.contains('\n') { "multiline" } else { "oneline" };
    format!("{}/{}/{}", where_, enc, lines)
}

fn kind_name(k: &SemverErrorKind) -> &'static str {
    match k {
        SemverErrorKind::MaxLengthError => "MaxLengthError",
        SemverErrorKind::IncompleteInput => "IncompleteInput",
        SemverErrorKind::ParseIntError(_) => "ParseIntError",
        SemverErrorKind::MaxIntError(_) => "MaxIntError",
        SemverErrorKind::Context(_) => "Context",
        SemverErrorKind::NoValidRanges => "NoValidRanges",
        SemverErrorKind::Other => "Other",
    }
}

/// what the statement demands about the kind, from a harness-side scan of the text
enum Demand {
    MaxLength,
    MaxInt { value: u64, at: usize },
    ParseInt { at: usize },
    None,
}

/// The kind clauses are demanded only when the over-large component is the *only* defect:
/// the same text with that component replaced by `1` is a version the crate accepts.
/// everything *before* component `k` (0-based) starting at `st` is fine: the text up to the
/// component, completed by small numbers, parses. What follows the component does not matter —
/// the component is the first thing wrong, reading left to right.
fn otherwise_valid(s: &str, st: usize, _end: usize, k: usize) -> bool {
    let completion = ["1.1.1", "1.1", "1"][k.min(2)];
    let t = format!("{}{}", &s[..st], completion);
    matches!(guarded(|| Version::parse(&t)), Ok(Ok(_)))
}

fn demand_for_version(s: &str) -> Demand {
    if s.len() > MAX_LENGTH {
        return Demand::MaxLength;
    }
    // optional v, blanks, then digits . digits . digits: the first component above the limit
    let b = s.as_bytes();
    let mut i = 0;
    while i < b.len() && (b[i] == b' ' || b[i] == b'\t') {
        i += 1;
    }
    if i < b.len() && (b[i] == b'v' || b[i] == b'V') {
        i += 1;
        while i < b.len() && (b[i] == b' ' || b[i] == b'\t') {
            i += 1;
        }
    }
    for k in 0..3 {
        let st = i;
        while i < b.len() && b[i].is_ascii_digit() {
            i += 1;
        }
        if i == st {
            return Demand::None;
        }
        let d = s[st..i].trim_start_matches('0');
        if d.len() > 20 || (d.len() == 20 && d > "18446744073709551615") {
            return if otherwise_valid(s, st, i, k) { Demand::ParseInt { at: st } } else { Demand::None };
        }
        let v: u64 = if d.is_empty() { 0 } else { d.parse().unwrap() };
        if v > crate::mv::MAX_SAFE {
            return if otherwise_valid(s, st, i, k) { Demand::MaxInt { value: v, at: st } } else { Demand::None };
        }
        if k < 2 {
            if i < b.len() && b[i] == b'.' {
                i += 1;
            } else {
                return Demand::None;
            }
        }
    }
    Demand::None
}

pub fn judge_error(ctx: &mut Ctx, s: &str, e: &SemverError, which: &str) {
    ctx.eval(1);
    let w = json!({"input": s, "parser": which});
    let obs = guarded(|| {
        let input = e.input().to_string();
        let off = e.offset();
        let span_off = e.span().offset();
        let kind = e.kind().clone();
        (input, off, span_off, kind)
    });
    let (input, off, span_off, kind) = match obs {
        Ok(o) => o,
        Err(p) => {
            ctx.violation(&format!("accessor-panic/{}/{}", p.site, message_class(&p.message)), w, p.message);
            return;
        }
    };
    let pc = pos_class(s, off.min(s.len()));
    ctx.class(&format!("{}:{}:{}", which, kind_name(&kind), pc));
    if !(off == 0 && s.is_ascii() && !s.contains('\n')) {
        ctx.nontrivial(&format!("{}:{}", which, s));
    }
    ctx.sample(|| json!({"input": s, "parser": which, "kind": kind_name(&kind), "offset": off, "error_input": input}));
    if input != s {
        let sub = if s.ends_with(&input) { "tail-only" } else { "other" };
        ctx.violation(&format!("input/{}/{}", sub, which), w, format!("{}::parse({:?}) failed; error.input() = {:?} (offset {})", which, s, input, off));
        return;
    }
    if off > s.len() {
        ctx.violation(&format!("offset/out-of-range/{}", which), w, format!("offset {} > len {}", off, s.len()));
        return;
    }
    if !s.is_char_boundary(off) {
        ctx.violation(&format!("offset/not-char-boundary/{}/{}", kind_name(&kind), which), w.clone(), format!("offset {} splits a character of {:?}", off, s));
        // location() is still exercised below (it must not panic either)
    }
    if span_off != off {
        ctx.violation(&format!("span≠offset/{}", which), w, format!("span offset {} vs offset() {}", span_off, off));
        return;
    }
    // location
    ctx.eval(1);
    match guarded(|| e.location()) {
        Err(p) => {
            ctx.violation(&format!("location/panic-{}/{}", message_class(&p.message), which), w.clone(), p.message);
        }
        Ok((line, col)) => {
            if s.is_char_boundary(off) {
                let before = &s[..off];
                let want_line = before.matches('\n').count();
                let line_start = before.rfind('\n').map(|i| i + 1).unwrap_or(0);
                let col_bytes = off - line_start;
                let col_chars = s[line_start..off].chars().count();
                if line != want_line {
                    ctx.violation(&format!("location/line/{}", pc), w.clone(), format!("location() = ({}, {}), offset {} is on 0-based line {}", line, col, off, want_line));
                } else if col != col_bytes && col != col_chars {
                    ctx.violation(&format!("location/column/{}", pc), w.clone(), format!("location() = ({}, {}), expected column {} (bytes) or {} (chars)", line, col, col_bytes, col_chars));
                }
            }
        }
    }
    // diagnostics
    ctx.eval(1);
    let diag = guarded(|| {
        let code = e.code().map(|c| c.to_string());
        let help = e.help().map(|c| c.to_string());
        let url = e.url().map(|c| c.to_string());
        let sev = e.severity();
        let has_src = e.source_code().is_some();
        let labels: Vec<(usize, usize)> = e.labels().map(|it| it.map(|l| (l.offset(), l.len())).collect()).unwrap_or_default();
        let disp = e.to_string();
        let dbg = format!("{:?}", e);
        let src = std::error::Error::source(e).map(|x| x.to_string());
        let mut narr = String::new();
        let r1 = miette::NarratableReportHandler::new().render_report(&mut narr, e);
        let mut js = String::new();
        let r2 = miette::JSONReportHandler::new().render_report(&mut js, e);
        (code, help, url, sev, has_src, labels, disp, dbg, src, r1.is_ok(), r2.is_ok(), narr.len(), js.len())
    });
    match diag {
        Err(p) => {
            ctx.violation(&format!("diagnostic/panic-{}/{}", message_class(&p.message), which), w.clone(), format!("{} at {}", p.message, p.site));
        }
        Ok((code, _help, _url, _sev, has_src, labels, disp, _dbg, _src, r1, r2, _n1, _n2)) => {
            if code.is_none() {
                ctx.violation("diagnostic/no-code", w.clone(), "Diagnostic::code() is None".into());
            } else if !has_src {
                ctx.violation("diagnostic/no-source", w.clone(), "Diagnostic::source_code() is None".into());
            } else if labels.is_empty() || labels.iter().any(|(o, l)| o + l > s.len()) {
                ctx.violation("diagnostic/label-outside-source", w.clone(), format!("labels {:?} vs source length {}", labels, s.len()));
            } else if disp.is_empty() {
                ctx.violation("diagnostic/empty-display", w.clone(), "Display is empty".into());
            } else if !r1 || !r2 {
                ctx.violation(&format!("diagnostic/render-fails/{}", pc), w.clone(), format!("narratable ok={} json ok={}", r1, r2));
            }
        }
    }
    // kind clauses
    ctx.eval(1);
    if which == "Range" {
        if !matches!(kind, SemverErrorKind::NoValidRanges) {
            ctx.violation(&format!("kind/range-not-NoValidRanges/{}", kind_name(&kind)), w, format!("Range::parse({:?}) failed with {:?}", s, kind));
        }
        return;
    }
    match demand_for_version(s) {
        Demand::MaxLength => {
            if !matches!(kind, SemverErrorKind::MaxLengthError) {
                ctx.violation(&format!("kind/too-long-not-MaxLengthError/{}", kind_name(&kind)), w.clone(), format!("{} bytes long but kind is {:?}", s.len(), kind));
            }
        }
        Demand::MaxInt { value, at } => match kind {
            SemverErrorKind::MaxIntError(v) if v == value => {
                if off != at {
                    ctx.violation("kind/MaxIntError-position", w.clone(), format!("component starts at byte {} but offset is {}", at, off));
                }
            }
            _ => ctx.violation(&format!("kind/big-component-not-MaxIntError/{}", kind_name(&kind)), w.clone(), format!("component {} at byte {} is above MAX_SAFE_INTEGER but kind is {:?}", value, at, kind)),
        },
        Demand::ParseInt { at } => {
            if !matches!(kind, SemverErrorKind::ParseIntError(_)) {
                ctx.violation(&format!("kind/u64-overflow-not-ParseIntError/{}", kind_name(&kind)), w.clone(), format!("component at byte {} overflows u64 but kind is {:?}", at, kind));
            }
        }
        Demand::None => {}
    }
    // the converse: a kind that names a numeric or length cause needs that cause in the input
    let runs: Vec<&str> = s.split(|c: char| !c.is_ascii_digit()).filter(|r| !r.is_empty()).collect();
    let sig = |r: &str| -> String { r.trim_start_matches('0').to_string() };
    match &kind {
        SemverErrorKind::ParseIntError(_) => {
            let overflow = runs.iter().any(|r| {
                let d = sig(r);
                d.len() > 20 || (d.len() == 20 && d.as_str() > "18446744073709551615")
            });
            if !overflow {
                ctx.violation("kind/ParseIntError-without-overflow", w, format!("kind is {:?} but no digit run of {:?} overflows u64", kind, s));
            }
        }
        SemverErrorKind::MaxIntError(v) => {
            let named = *v > crate::mv::MAX_SAFE && runs.iter().any(|r| sig(r) == v.to_string());
            if !named {
                ctx.violation("kind/MaxIntError-without-that-component", w, format!("kind is {:?} but {:?} holds no component with that value above MAX_SAFE_INTEGER", kind, s));
            }
        }
        SemverErrorKind::MaxLengthError => {
            if s.len() <= MAX_LENGTH {
                ctx.violation("kind/MaxLengthError-on-short-input", w, format!("kind is MaxLengthError but the input is {} bytes long", s.len()));
            }
        }
        _ => {}
    }
}

pub fn judge(ctx: &mut Ctx, s: &str) {
    ctx.begin(|| format!("C17 {:?}", s));
    if let Ok(Err(e)) = guarded(|| Version::parse(s)) {
        judge_error(ctx, s, &e, "Version");
    }
    if let Ok(Err(e)) = guarded(|| Range::parse(s)) {
        judge_error(ctx, s, &e, "Range");
    }
    // `str::parse` is the same parse reached through the FromStr impls (serde's Deserialize
    // goes through it as well): its errors are held to the same clauses
    if let Ok(Err(e)) = guarded(|| s.parse::<Version>()) {
        judge_error(ctx, s, &e, "Version");
    }
    if let Ok(Err(e)) = guarded(|| s.parse::<Range>()) {
        judge_error(ctx, s, &e, "Range");
    }
}

pub const SIGMA_R: &[char] = &['1', '.', 'x', '-', ' ', '|', '>', '<', '=', '~', '^', 'a', '\n', 'é'];

pub fn run(ctx: &mut Ctx) {
    ctx.stratum("D-directed", true);
    let directed: Vec<String> = vec![
        "1.2.900719925474100".into(),
        "1.900719925474100.3".into(),
        "900719925474100.2.3".into(),
        "v1.2.900719925474100".into(),
        "  1.2.900719925474100".into(),
        "1.2.18446744073709551616".into(),
        "1.18446744073709551616.3".into(),
        "1.2".into(),
        "".into(),
        "foo".into(),
        "1.2.x".into(),
        "\n1.2".into(),
        "é".into(),
        "1.2.\n3".into(),
        "a\nb\n1.2".into(),
        format!("1.2.3-{}", "é".repeat(200)),
        format!("1.2.3-{}", "a".repeat(260)),
        format!("{}\n1.2.3", "x".repeat(260)),
        format!("1.2.3-{}é", "a".repeat(249)),
        format!("1.2.3-{}é", "a".repeat(250)),
        format!("1.2.3-{}中", "a".repeat(250)),
        ">=1.y".into(),
        "|| ||".into(),
        "~".into(),
        "\n".into(),
    ];
    for s in &directed {
        if ctx.take() {
            judge(ctx, s);
        }
    }
    // two things wrong at once: a component above the limits (first thing wrong, reading left to
    // right) followed by a core that is also incomplete or malformed further right
    ctx.stratum("D2-big-component-then-broken-tail", true);
    for big in ["900719925474100", "9007199254740992", "18446744073709551615", "18446744073709551616", "99999999999999999999", "0009007199254740993"] {
        for head in ["", "1.", "1.2.", "v", "v1.", " 1.2."] {
            for tail in ["", ".1", ".x.3", ".1.", ".1.2.3.4", "..", ".1.2-", "x", ".1.2 foo", "-", "+", ".é", "\n.1.2", ".1.2\n"] {
                if ctx.take() {
                    judge(ctx, &format!("{}{}{}", head, big, tail));
                }
            }
        }
    }
    // blanks other than space / tab / newline: every Unicode White_Space character (1, 2 and 3
    // bytes long), the zero-width and BOM look-alikes, at the start, inside and at the end of
    // rejected texts -- wherever an implementation counts or skips "whitespace" by characters
    ctx.stratum("W-unicode-blanks", true);
    {
        const BLANKS: &[char] = &['\u{0b}', '\u{0c}', '\r', '\u{85}', '\u{a0}', '\u{1680}', '\u{2000}', '\u{2003}', '\u{200a}', '\u{2028}', '\u{2029}', '\u{202f}', '\u{205f}', '\u{3000}', '\u{200b}', '\u{feff}'];
        // characters that are numeric / alphabetic for Unicode but not for the grammar
        const LOOKALIKES: &[char] = &['\u{0663}', '\u{00b2}', '\u{ff17}', '\u{0967}', '\u{2167}', '\u{00bd}', '\u{ff41}', '\u{0430}', '\u{212a}'];
        const LTEMPLATES: &[&str] = &["1.2.{w}", "1.{w}.3", "{w}.0.0", "1.2.3{w}", "1.2.{w}3", "v 1.2.{w}", "1.2.900719925474100{w}", "1.2.3-{w}", "1.2.3-rc.{w}", "1.2.3+{w}", "1{w}.2.3", "1.2.3-1{w}", ">=1.{w}", "^{w}.1"];
        for b in LOOKALIKES {
            for t in LTEMPLATES {
                if ctx.take() {
                    judge(ctx, &t.replace("{w}", &b.to_string()));
                }
            }
        }
        const TEMPLATES: &[&str] = &["{w}foo", " {w}1.2.3.4", "{w}{w} >=1.y", "{w} {w}\t{w}bar || baz", "1.2.3{w}", "1.2{w}.3", "1.2.3 {w}", ">=1.2.3 {w}|| foo", "foo{w}", "{w}", "\n{w}x", "{w}\n{w}1.2", " {w}", "x{w}{w}{w}y", "{w}1.2.900719925474100", "1.2.3-{w}a", "{w}v1.2", "^{w}1.y", ">={w}", "1 - {w}"];
        for (bi, b) in BLANKS.iter().enumerate() {
            for (ti, t) in TEMPLATES.iter().enumerate() {
                if ctx.take() {
                    judge(ctx, &t.replace("{w}", &b.to_string()));
                    // mixed with a second blank of another width
                    let other = BLANKS[(bi + 1 + ti) % BLANKS.len()];
                    judge(ctx, &t.replacen("{w}", &other.to_string(), 1).replace("{w}", &b.to_string()));
                }
            }
        }
    }
    // long rejected inputs: the error still hands back the whole string that was passed in
    ctx.stratum("LL-long-rejected-inputs", true);
    for len in [257usize, 1000, 4095, 4096, 4097, 5000, 65_536, 65_537, 1 << 20] {
        for fam in 0..6usize {
            if !ctx.take() {
                continue;
            }
            let mut t = match fam {
                0 => format!("1.2.3-{}", "a".repeat(len)),
                1 => format!("1.2.3-{}", "é".repeat(len / 2)),
                2 => format!("1.2.3\n{}", "x\n".repeat(len / 2)),
                3 => "foo ".repeat(len / 4),
                4 => format!("{}1.2.3", " ".repeat(len)),
                _ => format!("1.2.{}", "9".repeat(len)),
            };
            if fam == 3 {
                t.push('!');
            }
            judge(ctx, &t);
        }
    }
    ctx.stratum("X-exhaustive-version-alphabet", true);
    let max_len = ctx.tier.pick(6, 9);
    exhaustive(ctx, max_len, &mut |ctx, s| judge(ctx, s));
    ctx.stratum("XR-exhaustive-range-alphabet", true);
    let k = SIGMA_R.len();
    let rl = ctx.tier.pick(4usize, 6usize);
    for len in 0..=rl {
        let total = k.pow(len as u32);
        for blk in 0..((total + 999) / 1000) {
            if !ctx.take() {
                continue;
            }
            for idx in (blk * 1000)..((blk + 1) * 1000).min(total) {
                let mut s = String::new();
                let mut x = idx;
                for _ in 0..len {
                    s.push(SIGMA_R[x % k]);
                    x /= k;
                }
                judge(ctx, &s);
            }
        }
    }
    ctx.stratum("N-one-edit-neighbourhood", true);
    let corpus = canonical_corpus(ctx.seed, ctx.tier.pick(80, 1000));
    for c in &corpus {
        if ctx.take() {
            let mut v = vec![];
            one_edits(c, &mut |s| v.push(s.to_string()));
            for s in v {
                judge(ctx, &s);
                // the same failure on a later line
                judge(ctx, &format!("\n{}", s));
            }
        }
    }
    ctx.stratum("L-near-limits", false);
    for i in 0..ctx.tier.pick(4u64, 64u64) {
        if ctx.take() {
            let mut r = Rng::for_case(ctx.seed, "C17-L", i);
            let mut ss = vec![];
            near_limits(&mut r, &mut |s| ss.push(s.to_string()));
            for s in ss {
                judge(ctx, &s);
            }
        }
    }
    ctx.stratum("R-random-token-soups", false);
    let n = ctx.tier.n(100_000, 10_000_000);
    for i in 0..n {
        if ctx.take() {
            let mut r = Rng::for_case(ctx.seed, "C17-R", i);
            let mut ss = vec![];
            random_strings(&mut r, &mut |s| ss.push(s.to_string()));
            for s in ss {
                judge(ctx, &s);
            }
        }
    }
}
