//! C03 — a prerelease satisfies a range only via a same-tuple prerelease comparator.

use crate::gen::probe_set;
use crate::interval::*;
use crate::mv::*;
use crate::observe::*;
use crate::rast::*;
use crate::rng::Rng;
use crate::runner::*;
use nodejs_semver::Range;
use serde_json::json;

pub const RULE: &str = "cases = (single-alternative range text from an AST, version); F every comparator form that can carry a tag (> >= < <= = bare ~ ~> ^, both hyphen sides) x tags ordering before/equal/after x probe on the same / neighbouring / unrelated tuple (exhaustive over a small tuple set), C conjunctions where the tagged comparator is not the tight bound or only the upper bound opts in, Z generated `-0` upper bounds (^, ~, x-ranges, hyphen) probed with X.0.0-0 / X.0.0-alpha, R random single alternatives, M max_satisfying/min_satisfying over lists holding gated prereleases, U two-alternative unions; oracle = for a prerelease v: satisfies ⇔ v within the alternative's hook-observed bounds ∧ some comparator of that alternative is written with a prerelease tag on v's major.minor.patch; for a release v: satisfies ⇔ within bounds; attaching / changing / dropping build metadata on the version or on any comparator changes no answer; non-trivial = the case contains a prerelease probe within the bounds (the gate decides); distinct = distinct range texts";

/// tuples of the comparators *written* with a prerelease tag (after normalisation: a tag behind
/// a wildcard is discarded). The `-0` bounds npm generates for ^ ~ x-ranges are not written tags.
fn written_tag_tuples(ast: &RangeAst) -> Vec<(u64, u64, u64)> {
    let mut out = vec![];
    let mut add = |p: &Partial| {
        if let (Some(a), Some(b), Some(c), pre) = p.normal() {
            if !pre.is_empty() {
                out.push((a, b, c));
            }
        }
    };
    for a in &ast.alts {
        match a {
            Alt::Hyphen(lo, hi) => {
                add(lo);
                add(hi);
            }
            Alt::Set(toks) => {
                for t in toks {
                    if let Tok::Cmp(_, p) = t {
                        add(p);
                    }
                }
            }
        }
    }
    out
}

fn gate_open(tags: &[(u64, u64, u64)], v: &MV) -> bool {
    tags.contains(&v.tuple())
}

fn tagged_forms(ast: &RangeAst) -> String {
    let mut f = vec![];
    for a in &ast.alts {
        match a {
            Alt::Hyphen(lo, hi) => {
                if !lo.normal().3.is_empty() {
                    f.push("hyphen-lower".to_string());
                }
                if !hi.normal().3.is_empty() {
                    f.push("hyphen-upper".to_string());
                }
            }
            Alt::Set(toks) => {
                for t in toks {
                    if let Tok::Cmp(op, p) = t {
                        if !p.normal().3.is_empty() {
                            f.push(op.name().to_string());
                        }
                    }
                }
            }
        }
    }
    if f.is_empty() {
        "untagged".into()
    } else {
        f.join("&")
    }
}

fn tuple_relation(des: &Desugared, v: &MV) -> &'static str {
    let mut best = "unrelated";
    for b in des.versions() {
        if !b.is_pre() {
            continue;
        }
        if b.tuple() == v.tuple() {
            return "same-tuple";
        }
        if b.major == v.major && b.minor == v.minor {
            best = "neighbour-patch";
        } else if b.major == v.major && best == "unrelated" {
            best = "neighbour-minor";
        }
    }
    best
}

/// with +build attached to every full comparator version
fn with_build(ast: &RangeAst) -> RangeAst {
    let mut a = ast.clone();
    for alt in a.alts.iter_mut() {
        match alt {
            Alt::Hyphen(lo, hi) => {
                for p in [lo, hi] {
                    if p.comps.len() == 3 {
                        p.build = vec!["zz".into(), "9".into()];
                    }
                }
            }
            Alt::Set(toks) => {
                for t in toks.iter_mut() {
                    if let Tok::Cmp(_, p) = t {
                        if p.comps.len() == 3 {
                            p.build = if p.build.is_empty() { vec!["zz".into(), "9".into()] } else { vec![] };
                        }
                    }
                }
            }
        }
    }
    a
}

pub fn judge(ctx: &mut Ctx, ast: &RangeAst, extra_probes: &[MV], stratum_class: &str) {
    let text = ast.plain_text();
    ctx.begin(|| format!("C03 range={:?}", text));
    let des = match desugar_range(ast) {
        Some(d) => d,
        None => return,
    };
    let r = match guarded(|| Range::parse(&text)) {
        Ok(Ok(r)) => r,
        Ok(Err(_)) => {
            // whether the text should parse at all is C01's subject; but a prerelease that the
            // documented comparators admit (both readings) *through a written tag on its own
            // tuple* is opted in, and a range that refuses to exist blocks it
            let tags = written_tag_tuples(ast);
            for v in probe_set(&des.versions()) {
                if v.is_pre() && gate_open(&tags, &v) && des.verdict(&v) == Verdict::Admit {
                    ctx.eval(1);
                    ctx.violation(
                        &format!("tag-lost/unparsed/{}", tagged_forms(ast)),
                        json!({"range": text, "version": v.text()}),
                        format!("{:?} does not parse although its comparators admit {} through a tag written on that tuple", text, v.text()),
                    );
                    return;
                }
            }
            ctx.skip("range does not parse (C01's subject)");
            return;
        }
        Err(p) => {
            ctx.violation(&format!("panic/{}", p.site), json!({"range": text}), p.message);
            return;
        }
    };
    let b = match bounds(&r) {
        Ok(b) => b,
        Err(e) => {
            ctx.violation("shape-invariant", json!({"range": text}), e);
            return;
        }
    };
    if b.0.len() != 1 {
        ctx.skip("not a single alternative after parsing");
        return;
    }
    // build-variant of the same range
    let rb = guarded(|| Range::parse(&with_build(ast).plain_text())).ok().and_then(|x| x.ok());
    let mut basis = des.versions();
    basis.extend(b.versions());
    let mut probes = probe_set(&basis);
    probes.extend(extra_probes.iter().cloned());
    let forms = tagged_forms(ast);
    let tags = written_tag_tuples(ast);
    let mut decisive = false;
    for v in &probes {
        ctx.eval(1);
        let inb = b.contains(v);
        let want = if v.is_pre() { inb && gate_open(&tags, v) } else { inb };
        let cv = v.to_crate();
        let got = r.satisfies(&cv);
        let rel = if v.is_pre() { tuple_relation(&des, v) } else { "release" };
        ctx.class(&format!("{}:{}:{}:{}", stratum_class, forms, rel, if inb { "in" } else { "out" }));
        if v.is_pre() && inb {
            decisive = true;
        }
        let w = json!({"range": text, "version": v.text()});
        if got != want {
            let clause = if !v.is_pre() {
                "release-affected"
            } else if got {
                "gate-leaks"
            } else {
                "gate-blocks-opted-in"
            };
            ctx.violation(
                &format!("{}/{}/{}", clause, forms, rel),
                w,
                format!("range {:?} (stored {}; comparators {}): version {} within bounds={} tagged comparator on its tuple={} => expected satisfies={}, crate says {}", text, r, des.text(), v.text(), inb, gate_open(&tags, v), want, got),
            );
            return;
        }
        // a prerelease that the *documented* comparators of this alternative admit (bounds met as
        // written, a written tag on its tuple, both readings agree) must be admitted: otherwise the
        // tag was lost on the way into the stored bounds. Only this direction is judged here — a
        // stored bound that is too wide (K1, K4) is C01's matter and does not concern the gate.
        if v.is_pre() && gate_open(&tags, v) && des.verdict(v) == Verdict::Admit && !got {
            ctx.violation(
                &format!("tag-lost/{}/{}", forms, rel),
                w,
                format!("range {:?} (stored {}): {} meets the written comparators {} and one of them carries a tag on its tuple, yet it is not admitted", text, r, v.text(), des.text()),
            );
            return;
        }
        // build metadata on the version never matters
        for bt in ["x", "7.y"] {
            let vb = v.no_build().with_build_s(bt);
            ctx.eval(1);
            if r.satisfies(&vb.to_crate()) != got || r.satisfies(&v.no_build().to_crate()) != got {
                ctx.violation(&format!("build-on-version/{}", forms), w, format!("answer for {} changes with build metadata", v.text()));
                return;
            }
        }
        // build metadata on the comparators never matters
        if let Some(rb) = &rb {
            ctx.eval(1);
            if rb.satisfies(&cv) != got {
                ctx.violation(&format!("build-on-comparator/{}", forms), w, format!("{:?} and its +build variant {:?} answer differently for {}", text, with_build(ast).plain_text(), v.text()));
                return;
            }
        }
    }
    if decisive {
        ctx.nontrivial(&text);
    }
    ctx.sample(|| json!({"range": text, "stored": r.to_string(), "comparators": des.text(), "tagged": forms, "probes": probes.len()}));
}

/// Multi-alternative ranges: the gate is per alternative — "inside one alternative whose bounds
/// it meets". Each alternative is parsed alone to observe its bounds (so no alignment between
/// the AST and the stored alternatives of the compound range is assumed), and the compound
/// range must answer like the disjunction of the per-alternative oracle.
pub fn judge_union(ctx: &mut Ctx, ast: &RangeAst, extra_probes: &[MV]) {
    let text = ast.plain_text();
    ctx.begin(|| format!("C03 union range={:?}", text));
    let r = match guarded(|| Range::parse(&text)) {
        Ok(Ok(r)) => r,
        Ok(Err(_)) => {
            ctx.skip("range does not parse (C01's subject)");
            return;
        }
        Err(p) => {
            ctx.violation(&format!("panic/{}", p.site), json!({"range": text}), p.message);
            return;
        }
    };
    // per alternative: (bounds when parsed alone, written tag tuples)
    let mut parts: Vec<(Option<Bs>, Vec<(u64, u64, u64)>)> = vec![];
    let mut basis: Vec<MV> = vec![];
    for a in &ast.alts {
        let one = RangeAst { alts: vec![a.clone()] };
        let b = guarded(|| Range::parse(&one.plain_text())).ok().and_then(|x| x.ok()).and_then(|x| bounds(&x).ok());
        if let Some(b) = &b {
            if b.0.len() != 1 {
                ctx.skip("alternative is not a single interval when parsed alone");
                return;
            }
            basis.extend(b.versions());
        }
        if let Some(d) = desugar_range(&one) {
            basis.extend(d.versions());
        }
        parts.push((b, written_tag_tuples(&one)));
    }
    let mut probes = probe_set(&basis);
    probes.extend(extra_probes.iter().cloned());
    // cross probes: the tagged tuples of one alternative with tags before/after, which may fall
    // inside the bounds of another (untagged) alternative
    for (_, tags) in &parts {
        for t in tags {
            for tag in ["0", "alpha", "rc.1", "zzz"] {
                probes.push(MV::new(t.0, t.1, t.2).with_pre_s(tag));
            }
        }
    }
    let forms = tagged_forms(ast);
    let mut decisive = false;
    for v in &probes {
        ctx.eval(1);
        let want = parts.iter().any(|(b, tags)| b.as_ref().map(|b| b.contains(v)).unwrap_or(false) && (!v.is_pre() || gate_open(tags, v)));
        let got = r.satisfies(&v.to_crate());
        // which situation is this probe in? (coverage)
        let in_untagged_only = v.is_pre() && parts.iter().any(|(b, tags)| b.as_ref().map(|b| b.contains(v)).unwrap_or(false) && !gate_open(tags, v)) && parts.iter().any(|(b, tags)| gate_open(tags, v) && !b.as_ref().map(|b| b.contains(v)).unwrap_or(false));
        if in_untagged_only {
            decisive = true;
            ctx.class("union:tag-in-one-alternative-bounds-in-another");
        }
        if got != want {
            let clause = if !v.is_pre() {
                "release-affected"
            } else if got {
                "gate-leaks-across-alternatives"
            } else {
                "gate-blocks-opted-in"
            };
            ctx.violation(
                &format!("union/{}/{}{}", clause, forms, if in_untagged_only { "/tag-and-bounds-in-different-alternatives" } else { "" }),
                json!({"range": text, "version": v.text()}),
                format!("range {:?} (stored {}): version {}: per-alternative oracle says {}, crate says {}", text, r, v.text(), want, got),
            );
            return;
        }
    }
    ctx.class(&format!("union:alts{}:{}", ast.alts.len(), if forms == "untagged" { "untagged" } else { "tagged" }));
    if decisive {
        ctx.nontrivial(&text);
    }
    ctx.sample(|| json!({"range": text, "stored": r.to_string(), "probes": probes.len()}));
}

fn full(ma: u64, mi: u64, pa: u64, pre: &str) -> Partial {
    Partial::full(&MV::new(ma, mi, pa).with_pre_s(pre))
}

pub fn run(ctx: &mut Ctx) {
    let tags = ["0", "alpha", "beta", "rc.1", "rc.1.0", "zzz", "-"];
    let tuples = [(1u64, 2u64, 3u64), (0, 0, 0), (0, 0, 1), (0, 1, 0), (1, 0, 0), (2, 0, 0)];
    // the constructed catch-all has no comparator at all, hence no tag: it admits every
    // release and no prerelease, directly and through Version::satisfies / max / min_satisfying
    ctx.stratum("A-range-any", true);
    if ctx.take() {
        ctx.begin(|| "C03 Range::any()".to_string());
        if let Ok(any) = guarded(nodejs_semver::Range::any) {
            let mut basis = vec![];
            for t in tuples {
                for tag in tags {
                    basis.push(MV::new(t.0, t.1, t.2).with_pre_s(tag));
                }
            }
            let both = guarded(|| any.intersect(&any));
            for v in crate::gen::probe_set(&basis) {
                ctx.eval(1);
                ctx.class("range-any");
                let cv = v.to_crate();
                let got = guarded(|| (any.satisfies(&cv), cv.satisfies(&any), any.max_satisfying(std::slice::from_ref(&cv)).is_some(), both.as_ref().ok().and_then(|b| b.as_ref()).map(|b| b.satisfies(&cv))));
                match got {
                    Ok((s1, s2, s3, s4)) => {
                        let want = !v.is_pre();
                        if s1 != want || s2 != want || s3 != want || s4.map(|x| x != want).unwrap_or(false) {
                            ctx.violation(
                                if want { "release-affected/range-any" } else { "gate-leaks/range-any" },
                                json!({"range": "Range::any()", "version": v.text()}),
                                format!("Range::any() and {}: Range::satisfies={} Version::satisfies={} max_satisfying.is_some={} any∩any satisfies={:?}; no comparator carries a tag, expected {}", v.text(), s1, s2, s3, s4, want),
                            );
                            break;
                        }
                        ctx.nontrivial(&format!("any {}", v.text()));
                    }
                    Err(p) => {
                        ctx.violation(&format!("panic/{}", p.site), json!({"range": "Range::any()", "version": v.text()}), p.message);
                        break;
                    }
                }
            }
        }
    }
    ctx.stratum("F-every-tagged-form", true);
    for op in ALL_OPS {
        for t in tuples {
            for tag in tags {
                if ctx.take() {
                    let ast = RangeAst::single(*op, full(t.0, t.1, t.2, tag));
                    judge(ctx, &ast, &[], "form");
                }
            }
        }
    }
    ctx.stratum("F-hyphen-sides", true);
    for t in tuples {
        for tag in tags {
            for (lo_tag, hi_tag) in [(tag, ""), ("", tag), (tag, "beta")] {
                if ctx.take() {
                    let ast = RangeAst { alts: vec![Alt::Hyphen(full(t.0, t.1, t.2, lo_tag), full(t.0 + 1, t.1, t.2, hi_tag))] };
                    judge(ctx, &ast, &[], "hyphen");
                    let ast = RangeAst { alts: vec![Alt::Hyphen(full(t.0, t.1, t.2, lo_tag), full(t.0, t.1, t.2 + 1, hi_tag))] };
                    judge(ctx, &ast, &[], "hyphen");
                }
            }
        }
    }
    ctx.stratum("C-conjunctions-tag-not-tight", true);
    let lows = [Op::Ge, Op::Gt, Op::Caret, Op::Tilde];
    let ups = [Op::Lt, Op::Le];
    for lo in lows {
        for up in ups {
            for tag in ["alpha", "0", "rc.1"] {
                for (lt, ut, extra) in [
                    ((1u64, 2u64, 3u64), (2u64, 0u64, 0u64), (1u64, 2u64, 0u64)), // extra untagged lower below the tagged one
                    ((1, 2, 3), (1, 2, 3), (1, 0, 0)),
                    ((0, 0, 0), (0, 0, 1), (0, 0, 0)),
                ] {
                    if !ctx.take() {
                        continue;
                    }
                    // tagged lower + untagged looser lower
                    let a = RangeAst { alts: vec![Alt::Set(vec![Tok::Cmp(lo, full(lt.0, lt.1, lt.2, tag)), Tok::Cmp(Op::Ge, full(extra.0, extra.1, extra.2, ""))])] };
                    judge(ctx, &a, &[], "conj");
                    // opt-in only from the upper bound
                    let b = RangeAst { alts: vec![Alt::Set(vec![Tok::Cmp(Op::Ge, full(extra.0, extra.1, extra.2, "")), Tok::Cmp(up, full(ut.0, ut.1, ut.2, tag))])] };
                    judge(ctx, &b, &[], "conj");
                    // tagged upper + tighter untagged upper
                    let c = RangeAst { alts: vec![Alt::Set(vec![Tok::Cmp(up, full(ut.0, ut.1, ut.2, tag)), Tok::Cmp(Op::Lt, full(lt.0, lt.1, lt.2 + 2, ""))])] };
                    judge(ctx, &c, &[], "conj");
                    // both ends tagged on different tuples
                    let d = RangeAst { alts: vec![Alt::Set(vec![Tok::Cmp(lo, full(lt.0, lt.1, lt.2, tag)), Tok::Cmp(up, full(ut.0, ut.1, ut.2 + 1, "beta"))])] };
                    judge(ctx, &d, &[], "conj");
                }
            }
        }
    }
    // windows whose two ends sit on *neighbouring* tuples (next patch / minor / major, and the
    // same tuple), every combination of inclusive / exclusive ends and of tags on either end:
    // where "nothing lies between" shortcuts would cut
    ctx.stratum("S-successor-tuple-windows", true);
    for (lt, ut) in [((1u64, 2u64, 3u64), (1u64, 2u64, 4u64)), ((1, 2, 3), (1, 3, 0)), ((1, 2, 3), (2, 0, 0)), ((0, 0, 3), (0, 0, 4)), ((0, 0, 0), (0, 0, 1)), ((1, 2, 3), (1, 2, 3)), ((1, 2, 3), (1, 2, 5))] {
        for lo in [Op::Gt, Op::Ge] {
            for up in [Op::Lt, Op::Le] {
                for ltag in ["", "0", "rc"] {
                    for utag in ["", "0", "rc", "beta.2"] {
                        if !ctx.take() {
                            continue;
                        }
                        let a = RangeAst { alts: vec![Alt::Set(vec![Tok::Cmp(lo, full(lt.0, lt.1, lt.2, ltag)), Tok::Cmp(up, full(ut.0, ut.1, ut.2, utag))])] };
                        judge(ctx, &a, &[], "successor-window");
                        // the same window next to an unrelated alternative (a failing parse of the
                        // window must not take the union's other members with it)
                        let b = RangeAst { alts: vec![a.alts[0].clone(), Alt::Set(vec![Tok::Cmp(Op::Bare, full(9, 9, 9, ""))])] };
                        judge_union(ctx, &b, &[]);
                    }
                }
            }
        }
    }
    ctx.stratum("Z-generated-dash-zero-uppers", true);
    for (op, p) in crate::monitors::c01::e1_comparators(&[0, 1, 2]) {
        if !ctx.take() {
            continue;
        }
        let ast = RangeAst::single(op, p.clone());
        // probes right at the generated bound: X.0.0-0, X.0.0-alpha, X.0.0
        let mut extra = vec![];
        if let Some(d) = desugar_range(&ast) {
            for b in d.versions() {
                extra.push(b.release().with_pre(&["0"]));
                extra.push(b.release().with_pre(&["alpha"]));
                extra.push(b.release());
            }
        }
        judge(ctx, &ast, &extra, "table");
    }
    ctx.stratum("R-random-single-alternatives", false);
    let n = ctx.tier.n(40_000, 4_000_000);
    for i in 0..n {
        if !ctx.take() {
            continue;
        }
        let mut r = Rng::for_case(ctx.seed, "C03-R", i);
        let nums: &[u64] = if r.chance(2, 3) { &[0, 1, 2] } else { crate::gen::NUMS_POOL };
        let alt = if r.chance(1, 6) {
            Alt::Hyphen(rand_partial(&mut r, nums), rand_partial(&mut r, nums))
        } else {
            let k = 1 + r.below(3);
            Alt::Set((0..k).map(|_| Tok::Cmp(*r.pick(ALL_OPS), rand_partial(&mut r, nums))).collect())
        };
        judge(ctx, &RangeAst { alts: vec![alt] }, &[], "random");
    }
    // unions: tag in one alternative, bounds in another
    ctx.stratum("U-unions-directed", true);
    for t in [(1u64, 5u64, 0u64), (0, 0, 0), (2, 0, 0), (1, 0, 1)] {
        for tag in ["beta", "0", "rc.1"] {
            for op in [Op::Bare, Op::Eq, Op::Ge, Op::Gt, Op::Lt, Op::Le, Op::Caret, Op::Tilde] {
                if !ctx.take() {
                    continue;
                }
                let tagged = Alt::Set(vec![Tok::Cmp(op, full(t.0, t.1, t.2, tag))]);
                for wide in [
                    Alt::Set(vec![Tok::Cmp(Op::Ge, full(t.0, 0, 0, "")), Tok::Cmp(Op::Lt, full(t.0 + 1, 0, 0, ""))]),
                    Alt::Set(vec![Tok::Cmp(Op::Caret, full(t.0, t.1, 0, ""))]),
                    Alt::Set(vec![Tok::Cmp(Op::Bare, Partial { comps: vec![Xr::Wild('*')], pre: vec![], build: vec![] })]),
                    Alt::Set(vec![Tok::Cmp(Op::Lt, full(t.0, t.1, t.2 + 3, ""))]),
                    Alt::Hyphen(full(t.0, 0, 0, ""), full(t.0 + 2, 0, 0, "")),
                ] {
                    judge_union(ctx, &RangeAst { alts: vec![wide.clone(), tagged.clone()] }, &[]);
                    judge_union(ctx, &RangeAst { alts: vec![tagged.clone(), wide.clone()] }, &[]);
                    judge_union(ctx, &RangeAst { alts: vec![wide.clone(), tagged.clone(), Alt::Set(vec![Tok::Cmp(Op::Gt, full(t.0 + 5, 0, 0, "alpha"))])] }, &[]);
                }
            }
        }
    }
    ctx.stratum("U-unions-random", false);
    let n = ctx.tier.n(20_000, 2_000_000);
    for i in 0..n {
        if !ctx.take() {
            continue;
        }
        let mut r = Rng::for_case(ctx.seed, "C03-U", i);
        let nums: &[u64] = if r.chance(3, 4) { &[0, 1, 2] } else { crate::gen::NUMS_POOL };
        let k = 2 + r.below(2);
        let alts: Vec<Alt> = (0..k)
            .map(|_| {
                if r.chance(1, 6) {
                    Alt::Hyphen(rand_partial(&mut r, nums), rand_partial(&mut r, nums))
                } else {
                    let m = 1 + r.below(2);
                    Alt::Set((0..m).map(|_| Tok::Cmp(*r.pick(ALL_OPS), rand_partial(&mut r, nums))).collect())
                }
            })
            .collect();
        judge_union(ctx, &RangeAst { alts }, &[]);
    }
    // resolver-style use
    ctx.stratum("M-max-min-satisfying-with-gated-prereleases", false);
    let n = ctx.tier.n(10_000, 1_000_000);
    for i in 0..n {
        if !ctx.take() {
            continue;
        }
        let mut r = Rng::for_case(ctx.seed, "C03-M", i);
        let k = 1 + r.below(2);
        let ast = RangeAst { alts: vec![Alt::Set((0..k).map(|_| Tok::Cmp(*r.pick(ALL_OPS), rand_partial(&mut r, &[0, 1, 2]))).collect())] };
        let text = ast.plain_text();
        let des = match desugar_range(&ast) {
            Some(d) => d,
            None => continue,
        };
        let range = match guarded(|| Range::parse(&text)) {
            Ok(Ok(x)) => x,
            _ => continue,
        };
        let b = match bounds(&range) {
            Ok(b) if b.0.len() == 1 => b,
            _ => continue,
        };
        let tags = written_tag_tuples(&ast);
        let mut basis = des.versions();
        basis.extend(b.versions());
        let mut list = probe_set(&basis);
        r.shuffle(&mut list);
        list.truncate(12);
        let cl: Vec<nodejs_semver::Version> = list.iter().map(|v| v.to_crate()).collect();
        ctx.eval(2);
        ctx.class("max-min-satisfying");
        for (name, got) in [("max", range.max_satisfying(&cl)), ("min", range.min_satisfying(&cl))] {
            if let Some(g) = got {
                let gv = MV::from_crate(g);
                if gv.is_pre() && !(b.contains(&gv) && gate_open(&tags, &gv)) {
                    ctx.violation(&format!("resolver/{}_satisfying-returns-gated-prerelease", name), json!({"range": text, "list": list.iter().map(|v| v.text()).collect::<Vec<_>>()}), format!("{}_satisfying returned {} which the range does not admit", name, gv.text()));
                }
            }
        }
    }
}
