//! Range AST, rendering to text (with the loose spellings the crate advertises) and the
//! *documented* npm desugaring (DESIGN Appendix A). The meaning is computed from the AST,
//! never by re-parsing the text: the oracle contains no second range parser.

use crate::mv::*;
use crate::rng::Rng;

#[derive(Clone, Debug, PartialEq)]
pub enum Xr {
    Num(u64),
    Wild(char), // 'x' | 'X' | '*'
}

#[derive(Clone, Debug, PartialEq)]
pub struct Partial {
    pub comps: Vec<Xr>, // 1..=3
    pub pre: Vec<String>,
    pub build: Vec<String>,
}

#[derive(Clone, Copy, Debug, PartialEq, Eq, Hash, PartialOrd, Ord)]
pub enum Op {
    Bare,
    Eq,
    Gt,
    Ge,
    Lt,
    Le,
    Tilde,
    TildeGt,
    Caret,
}

pub const ALL_OPS: &[Op] = &[Op::Bare, Op::Eq, Op::Gt, Op::Ge, Op::Lt, Op::Le, Op::Tilde, Op::TildeGt, Op::Caret];

impl Op {
    pub fn text(&self) -> &'static str {
        match self {
            Op::Bare => "",
            Op::Eq => "=",
            Op::Gt => ">",
            Op::Ge => ">=",
            Op::Lt => "<",
            Op::Le => "<=",
            Op::Tilde => "~",
            Op::TildeGt => "~>",
            Op::Caret => "^",
        }
    }
    pub fn name(&self) -> &'static str {
        match self {
            Op::Bare => "bare",
            Op::Eq => "=",
            Op::Gt => ">",
            Op::Ge => ">=",
            Op::Lt => "<",
            Op::Le => "<=",
            Op::Tilde => "~",
            Op::TildeGt => "~>",
            Op::Caret => "^",
        }
    }
}

#[derive(Clone, Debug, PartialEq)]
pub enum Tok {
    Cmp(Op, Partial),
    Garbage(String),
}

#[derive(Clone, Debug, PartialEq)]
pub enum Alt {
    Hyphen(Partial, Partial),
    Set(Vec<Tok>),
}

#[derive(Clone, Debug, PartialEq)]
pub struct RangeAst {
    pub alts: Vec<Alt>,
}

/// spelling choices for rendering; `Spelling::plain()` gives the canonical text
#[derive(Clone, Debug)]
pub struct Spelling {
    pub op_blanks: usize,     // blanks after an operator
    pub sep_blanks: usize,    // blanks between comparators (>=1)
    pub or_left: usize,       // blanks before ||
    pub or_right: usize,      // blanks after ||
    pub v_prefix: bool,       // `v` before the partial
    pub lead_zero: bool,      // leading zero on non-zero numbers
    pub zero_pad: usize,      // with lead_zero: how many zeros (1 = `01`; 16+ makes the component longer than any valid number)
    pub hyphenless_pre: bool, // prerelease without its hyphen (letter-initial tags only)
    pub lead_blank: usize,
    pub trail_blank: usize,
    pub tab: bool,
}

impl Spelling {
    pub fn plain() -> Spelling {
        Spelling { op_blanks: 0, sep_blanks: 1, or_left: 1, or_right: 1, v_prefix: false, lead_zero: false, zero_pad: 1, hyphenless_pre: false, lead_blank: 0, trail_blank: 0, tab: false }
    }
    pub fn random(r: &mut Rng) -> Spelling {
        if r.chance(1, 2) {
            return Spelling { or_left: r.below(2), or_right: r.below(2), ..Spelling::plain() };
        }
        Spelling {
            op_blanks: r.below(3),
            sep_blanks: 1 + r.below(3),
            or_left: r.below(3),
            or_right: r.below(3),
            v_prefix: r.chance(1, 4),
            lead_zero: r.chance(1, 4),
            zero_pad: *r.pick(&[1usize, 1, 1, 2, 3, 7, 12]), // total length stays <= 16 digits: longer components are zone Z4
            hyphenless_pre: r.chance(1, 4),
            lead_blank: if r.chance(1, 6) { 1 + r.below(2) } else { 0 },
            trail_blank: if r.chance(1, 6) { 1 + r.below(2) } else { 0 },
            tab: r.chance(1, 10),
        }
    }
    pub fn describe(&self) -> String {
        let mut f = vec![];
        if self.op_blanks > 0 {
            f.push("blank-after-op");
        }
        if self.sep_blanks > 1 {
            f.push("multi-blank");
        }
        if self.v_prefix {
            f.push("v-prefix");
        }
        if self.lead_zero {
            f.push(if self.zero_pad >= 7 { "long-zero-padding" } else { "leading-zero" });
        }
        if self.hyphenless_pre {
            f.push("hyphenless-pre");
        }
        if self.lead_blank > 0 || self.trail_blank > 0 {
            f.push("outer-blank");
        }
        if self.tab {
            f.push("tab");
        }
        if f.is_empty() {
            "plain".to_string()
        } else {
            f.join("+")
        }
    }
}

fn blanks(n: usize, tab: bool) -> String {
    if tab && n > 0 {
        let mut s = "\t".to_string();
        s.push_str(&" ".repeat(n - 1));
        s
    } else {
        " ".repeat(n)
    }
}

impl Partial {
    pub fn full(v: &MV) -> Partial {
        Partial { comps: vec![Xr::Num(v.major), Xr::Num(v.minor), Xr::Num(v.patch)], pre: v.pre.clone(), build: v.build.clone() }
    }
    /// shape over {N,X}, e.g. "N.X.N", with "+pre" when a prerelease tag is written
    pub fn shape(&self) -> String {
        let mut s = self.comps.iter().map(|c| if let Xr::Num(_) = c { "N" } else { "X" }).collect::<Vec<_>>().join(".");
        if !self.pre.is_empty() {
            s.push_str("+pre");
        }
        s
    }
    /// shape after normalisation ("X", "N", "N.X"→"N", "N.N", "N.N.N"), with "+pre" only when
    /// the qualifier survives normalisation
    pub fn normal_shape(&self) -> String {
        let (a, b, c, pre) = self.normal();
        let s = match (a, b, c) {
            (None, _, _) => "X",
            (Some(_), None, _) => "N",
            (Some(_), Some(_), None) => "N.N",
            _ => "N.N.N",
        };
        format!("{}{}", s, if pre.is_empty() { "" } else { "+pre" })
    }
    /// normalisation: the first wildcard makes every later component a wildcard
    /// and discards the qualifier. Returns (major, minor, patch) as options.
    pub fn normal(&self) -> (Option<u64>, Option<u64>, Option<u64>, Vec<String>) {
        let get = |i: usize| -> Option<u64> {
            match self.comps.get(i) {
                Some(Xr::Num(n)) => Some(*n),
                _ => None,
            }
        };
        let ma = get(0);
        let mi = if ma.is_some() { get(1) } else { None };
        let pa = if mi.is_some() { get(2) } else { None };
        let pre = if pa.is_some() { self.pre.clone() } else { vec![] };
        (ma, mi, pa, pre)
    }
    pub fn render(&self, sp: &Spelling, zero_pad_ok: bool) -> String {
        let mut s = String::new();
        if sp.v_prefix {
            s.push('v');
        }
        for (i, c) in self.comps.iter().enumerate() {
            if i > 0 {
                s.push('.');
            }
            match c {
                Xr::Num(n) => {
                    if sp.lead_zero && (*n != 0 || zero_pad_ok) && *n < 1000 {
                        s.push_str(&"0".repeat(sp.zero_pad.max(1)));
                    }
                    s.push_str(&n.to_string());
                }
                Xr::Wild(ch) => s.push(*ch),
            }
        }
        if !self.pre.is_empty() {
            let first = self.pre[0].as_bytes()[0];
            // hyphen-less spelling only when the tag starts with a letter other than x/X
            // (a leading digit would merge with the patch number; `x` would read as a wildcard)
            let can_drop = first.is_ascii_alphabetic() && first != b'x' && first != b'X' && matches!(self.comps.last(), Some(Xr::Num(_)));
            if !(sp.hyphenless_pre && can_drop) {
                s.push('-');
            }
            s.push_str(&self.pre.join("."));
        }
        if !self.build.is_empty() {
            s.push('+');
            s.push_str(&self.build.join("."));
        }
        s
    }
}

impl RangeAst {
    pub fn single(op: Op, p: Partial) -> RangeAst {
        RangeAst { alts: vec![Alt::Set(vec![Tok::Cmp(op, p)])] }
    }
    pub fn render(&self, sp: &Spelling) -> String {
        let mut out = String::new();
        out.push_str(&blanks(sp.lead_blank, false));
        for (i, a) in self.alts.iter().enumerate() {
            if i > 0 {
                out.push_str(&blanks(sp.or_left, false));
                out.push_str("||");
                out.push_str(&blanks(sp.or_right, false));
            }
            match a {
                Alt::Hyphen(lo, hi) => {
                    out.push_str(&lo.render(sp, true));
                    out.push_str(&blanks(sp.sep_blanks, sp.tab));
                    out.push('-');
                    out.push_str(&blanks(sp.sep_blanks, sp.tab));
                    out.push_str(&hi.render(sp, true));
                }
                Alt::Set(toks) => {
                    for (j, t) in toks.iter().enumerate() {
                        if j > 0 {
                            out.push_str(&blanks(sp.sep_blanks, sp.tab));
                        }
                        match t {
                            Tok::Cmp(op, p) => {
                                out.push_str(op.text());
                                if *op != Op::Bare {
                                    out.push_str(&blanks(sp.op_blanks, sp.tab));
                                }
                                // node compares caret components with the *string* "0", so `^00.1`
                                // is a node quirk (zone Z7): zero is never padded under a caret
                                out.push_str(&p.render(sp, *op != Op::Caret));
                            }
                            Tok::Garbage(g) => out.push_str(g),
                        }
                    }
                }
            }
        }
        out.push_str(&blanks(sp.trail_blank, false));
        out
    }
    pub fn plain_text(&self) -> String {
        self.render(&Spelling::plain())
    }
}

// ---------------------------------------------------------------------------------------------
// documented desugaring

#[derive(Clone, Copy, Debug, PartialEq, Eq)]
pub enum POp {
    Lt,
    Le,
    Gt,
    Ge,
    Eq,
}

#[derive(Clone, Debug, PartialEq)]
pub enum Prim {
    /// `*` := `>=0.0.0` in the README; node's implementation makes it "ANY" (zone Z2)
    Any,
    /// `<0.0.0-0`: admits nothing
    Nothing,
    Cmp(POp, MV),
}

fn z(ma: u64, mi: u64, pa: u64) -> MV {
    MV::new(ma, mi, pa).with_pre(&["0"])
}

fn full(ma: u64, mi: u64, pa: u64, pre: &[String]) -> MV {
    MV { major: ma, minor: mi, patch: pa, pre: pre.to_vec(), build: vec![] }
}

/// Appendix A, one row per operator. Build metadata is always discarded.
pub fn desugar(op: Op, p: &Partial) -> Vec<Prim> {
    use POp::*;
    use Prim::*;
    let (ma, mi, pa, pre) = p.normal();
    match (op, ma, mi, pa) {
        // wildcard-all
        (Op::Gt, None, _, _) | (Op::Lt, None, _, _) => vec![Nothing],
        (_, None, _, _) => vec![Any],
        // M
        (Op::Bare | Op::Eq | Op::Tilde | Op::TildeGt | Op::Caret, Some(a), None, _) => vec![Cmp(Ge, MV::new(a, 0, 0)), Cmp(Lt, z(a + 1, 0, 0))],
        (Op::Gt, Some(a), None, _) => vec![Cmp(Ge, MV::new(a + 1, 0, 0))],
        (Op::Ge, Some(a), None, _) => vec![Cmp(Ge, MV::new(a, 0, 0))],
        (Op::Lt, Some(a), None, _) => vec![Cmp(Lt, z(a, 0, 0))],
        (Op::Le, Some(a), None, _) => vec![Cmp(Lt, z(a + 1, 0, 0))],
        // M.m
        (Op::Bare | Op::Eq | Op::Tilde | Op::TildeGt, Some(a), Some(b), None) => vec![Cmp(Ge, MV::new(a, b, 0)), Cmp(Lt, z(a, b + 1, 0))],
        (Op::Caret, Some(a), Some(b), None) => {
            if a > 0 {
                vec![Cmp(Ge, MV::new(a, b, 0)), Cmp(Lt, z(a + 1, 0, 0))]
            } else {
                vec![Cmp(Ge, MV::new(0, b, 0)), Cmp(Lt, z(0, b + 1, 0))]
            }
        }
        (Op::Gt, Some(a), Some(b), None) => vec![Cmp(Ge, MV::new(a, b + 1, 0))],
        (Op::Ge, Some(a), Some(b), None) => vec![Cmp(Ge, MV::new(a, b, 0))],
        (Op::Lt, Some(a), Some(b), None) => vec![Cmp(Lt, z(a, b, 0))],
        (Op::Le, Some(a), Some(b), None) => vec![Cmp(Lt, z(a, b + 1, 0))],
        // M.m.p[-pre]
        (Op::Bare | Op::Eq, Some(a), Some(b), Some(c)) => vec![Cmp(Eq, full(a, b, c, &pre))],
        (Op::Tilde | Op::TildeGt, Some(a), Some(b), Some(c)) => vec![Cmp(Ge, full(a, b, c, &pre)), Cmp(Lt, z(a, b + 1, 0))],
        (Op::Caret, Some(a), Some(b), Some(c)) => {
            let upper = if a > 0 {
                z(a + 1, 0, 0)
            } else if b > 0 {
                z(0, b + 1, 0)
            } else {
                z(0, 0, c + 1)
            };
            vec![Cmp(Ge, full(a, b, c, &pre)), Cmp(Lt, upper)]
        }
        (Op::Gt, Some(a), Some(b), Some(c)) => vec![Cmp(Gt, full(a, b, c, &pre))],
        (Op::Ge, Some(a), Some(b), Some(c)) => vec![Cmp(Ge, full(a, b, c, &pre))],
        (Op::Lt, Some(a), Some(b), Some(c)) => vec![Cmp(Lt, full(a, b, c, &pre))],
        (Op::Le, Some(a), Some(b), Some(c)) => vec![Cmp(Le, full(a, b, c, &pre))],
    }
}

pub fn desugar_hyphen(lo: &Partial, hi: &Partial) -> Vec<Prim> {
    use POp::*;
    use Prim::*;
    let mut out = vec![];
    let (a, b, c, pre) = lo.normal();
    match (a, b, c) {
        // README: missing pieces of the lower version are zeroes (`>=0.0.0`); node drops the
        // lower bound altogether. Both readings are carried by `Any` (zone Z2).
        (None, _, _) => out.push(Any),
        (Some(a), None, _) => out.push(Cmp(Ge, MV::new(a, 0, 0))),
        (Some(a), Some(b), None) => out.push(Cmp(Ge, MV::new(a, b, 0))),
        (Some(a), Some(b), Some(c)) => out.push(Cmp(Ge, full(a, b, c, &pre))),
    }
    let (a, b, c, pre) = hi.normal();
    match (a, b, c) {
        (None, _, _) => {}
        (Some(a), None, _) => out.push(Cmp(Lt, z(a + 1, 0, 0))),
        (Some(a), Some(b), None) => out.push(Cmp(Lt, z(a, b + 1, 0))),
        (Some(a), Some(b), Some(c)) => out.push(Cmp(Le, full(a, b, c, &pre))),
    }
    out
}

impl Prim {
    pub fn text(&self) -> String {
        match self {
            Prim::Any => "*".into(),
            Prim::Nothing => "<0.0.0-0".into(),
            Prim::Cmp(op, v) => format!(
                "{}{}",
                match op {
                    POp::Lt => "<",
                    POp::Le => "<=",
                    POp::Gt => ">",
                    POp::Ge => ">=",
                    POp::Eq => "=",
                },
                v.text()
            ),
        }
    }
    pub fn version(&self) -> Option<&MV> {
        match self {
            Prim::Cmp(_, v) => Some(v),
            _ => None,
        }
    }
    fn is_ge_zero(&self) -> bool {
        match self {
            Prim::Any => true,
            Prim::Cmp(POp::Ge, v) => v.tuple() == (0, 0, 0) && !v.is_pre(),
            _ => false,
        }
    }
    /// bounds test of one primitive comparator. `any_reading`: node's reading in which
    /// `>=0.0.0` is "ANY" and passes everything (zone Z2); otherwise README's `>=0.0.0`.
    fn passes(&self, v: &MV, any_reading: bool) -> bool {
        if self.is_ge_zero() {
            return any_reading || mv_le(&MV::new(0, 0, 0), v);
        }
        match self {
            Prim::Any => true,
            Prim::Nothing => false,
            Prim::Cmp(op, b) => match op {
                POp::Lt => mv_lt(v, b),
                POp::Le => mv_le(v, b),
                POp::Gt => mv_lt(b, v),
                POp::Ge => mv_le(b, v),
                POp::Eq => mv_eq(v, b),
            },
        }
    }
}

/// The desugared form of a whole range: one comparator list per alternative that has at
/// least one valid comparator. `None` = the text contains no valid comparator at all.
#[derive(Clone, Debug)]
pub struct Desugared {
    pub alts: Vec<Vec<Prim>>,
}

pub fn desugar_range(ast: &RangeAst) -> Option<Desugared> {
    let mut alts = vec![];
    for a in &ast.alts {
        match a {
            Alt::Hyphen(lo, hi) => alts.push(desugar_hyphen(lo, hi)),
            Alt::Set(toks) => {
                let mut prims = vec![];
                let mut any_valid = false;
                for t in toks {
                    if let Tok::Cmp(op, p) = t {
                        any_valid = true;
                        prims.extend(desugar(*op, p));
                    }
                }
                if any_valid {
                    alts.push(prims);
                }
            }
        }
    }
    if alts.is_empty() {
        None
    } else {
        Some(Desugared { alts })
    }
}

fn alt_admits(prims: &[Prim], v: &MV, any_reading: bool) -> bool {
    if !prims.iter().all(|p| p.passes(v, any_reading)) {
        return false;
    }
    if !v.is_pre() {
        return true;
    }
    // gate: some comparator *written with a prerelease tag* on the same tuple.
    prims.iter().any(|p| match p {
        Prim::Cmp(_, b) => b.is_pre() && b.tuple() == v.tuple() && !(any_reading && p.is_ge_zero()),
        _ => false,
    })
}

#[derive(Clone, Copy, Debug, PartialEq, Eq)]
pub enum Verdict {
    Admit,
    Reject,
    /// documented reading and node-implementation reading differ (zones Z1/Z2): not judged
    Ambiguous,
}

impl Desugared {
    /// README reading: `||` is union, `*` is `>=0.0.0`.
    pub fn admits_doc(&self, v: &MV) -> bool {
        self.alts.iter().any(|a| alt_admits(a, v, false))
    }
    /// node 7.6.2 implementation reading: `>=0.0.0` is ANY; a lone-`*` alternative collapses
    /// the whole range to `*` (Z1).
    pub fn admits_node(&self, v: &MV) -> bool {
        let lone_star = self.alts.iter().any(|a| !a.is_empty() && a.iter().all(|p| p.is_ge_zero()));
        if lone_star {
            return !v.is_pre();
        }
        self.alts.iter().any(|a| alt_admits(a, v, true))
    }
    pub fn verdict(&self, v: &MV) -> Verdict {
        let d = self.admits_doc(v);
        let n = self.admits_node(v);
        if d != n {
            Verdict::Ambiguous
        } else if d {
            Verdict::Admit
        } else {
            Verdict::Reject
        }
    }
    pub fn versions(&self) -> Vec<MV> {
        self.alts.iter().flatten().filter_map(|p| p.version().cloned()).collect()
    }
    pub fn text(&self) -> String {
        self.alts.iter().map(|a| a.iter().map(|p| p.text()).collect::<Vec<_>>().join(" ")).collect::<Vec<_>>().join(" || ")
    }
}

// ---------------------------------------------------------------------------------------------
// generators

pub const SHAPES: &[&str] = &["N", "X", "N.N", "N.X", "X.N", "X.X", "N.N.N", "N.N.X", "N.X.N", "N.X.X", "X.N.N", "X.N.X", "X.X.N", "X.X.X"];
// tokens no rule of the range grammar accepts (each checked against node-semver 7.6.2 in loose
// mode: dropped as garbage). The second group are valid comparators with junk attached and
// tokens that only look like parts of a hyphen range: they probe the token-boundary rules.
pub const GARBAGE: &[&str] = &[
    "foo", "1.2.3.4", "1.2beta4", ">=1.y", "!1", "1,2", "~1.y", "bar-baz", "1.2.3.", "=>1",
    "^1.2foo", "~1.2.3.4", "^1.2.3.4", ">=1.2.3.4", "<1.2.3.", "-2", "-1.2.3", "1-", "2foo", "1.2.3.4.5", "^1.x.y", "^1.2.3+", "~1.2.", "1-2", "x-", "*foo",
    // a single `|` inside a token is not a separator (tokens starting or ending with `|` would merge
    // with a neighbouring `||` when no blank separates them, so only interior pipes are used)
    "x|y", "1|2", "a|b|c", ">=1.2.3|x", "~1.2|x", "^1.2|x", "2|x", "1.2.3|foo",
];
pub const PRE_TAGS: &[&str] = &["alpha", "0", "rc.1", "beta.2", "a.b", "1", "alpha.0", "-", "x", "0.0", "b-c", "DEV", "RC.V2", "X", "Alpha", "0.5", "0.alpha", "v1", "V", "100000000", "1e5", "dev", "rc.v"];

pub fn wild(r: &mut Rng) -> Xr {
    Xr::Wild(*r.pick(&['x', 'X', '*']))
}

/// all partials of a shape with numbers drawn from `nums` (exhaustive)
pub fn partials_of_shape(shape: &str, nums: &[u64]) -> Vec<Partial> {
    let parts: Vec<&str> = shape.split('.').collect();
    let mut out: Vec<Vec<Xr>> = vec![vec![]];
    for (i, p) in parts.iter().enumerate() {
        let mut next = vec![];
        for pref in &out {
            if *p == "N" {
                for n in nums {
                    let mut q = pref.clone();
                    q.push(Xr::Num(*n));
                    next.push(q);
                }
            } else {
                let mut q = pref.clone();
                q.push(Xr::Wild(['x', '*', 'X'][i % 3]));
                next.push(q);
            }
        }
        out = next;
    }
    out.into_iter().map(|comps| Partial { comps, pre: vec![], build: vec![] }).collect()
}

pub fn rand_partial(r: &mut Rng, nums: &[u64]) -> Partial {
    let shape = if r.chance(3, 5) { "N.N.N" } else { *r.pick(SHAPES) };
    let comps: Vec<Xr> = shape.split('.').map(|p| if p == "N" { Xr::Num(*r.pick(nums)) } else { wild(r) }).collect();
    let mut pre = vec![];
    let mut build = vec![];
    if comps.len() == 3 {
        let all_num = comps.iter().all(|c| matches!(c, Xr::Num(_)));
        if (all_num && r.chance(2, 5)) || (!all_num && r.chance(1, 10)) {
            pre = r.pick(PRE_TAGS).split('.').map(|s| s.to_string()).collect();
        }
        if r.chance(1, 10) {
            build = vec!["b".to_string(), "7".to_string()];
        }
    }
    Partial { comps, pre, build }
}

pub fn rand_ast(r: &mut Rng, nums: &[u64], allow_garbage: bool) -> RangeAst {
    let nalts = *r.pick(&[1, 1, 1, 2, 2, 3]);
    let mut alts = vec![];
    for _ in 0..nalts {
        if r.chance(1, 7) {
            alts.push(Alt::Hyphen(rand_partial(r, nums), rand_partial(r, nums)));
        } else {
            let n = *r.pick(&[1, 1, 2, 2, 3]);
            let mut toks = vec![];
            for _ in 0..n {
                toks.push(Tok::Cmp(*r.pick(ALL_OPS), rand_partial(r, nums)));
            }
            if allow_garbage && r.chance(1, 6) {
                let pos = r.below(toks.len() + 1);
                toks.insert(pos, Tok::Garbage(r.pick(GARBAGE).to_string()));
            }
            alts.push(Alt::Set(toks));
        }
    }
    RangeAst { alts }
}

/// ambiguity zones that are properties of the AST as a whole (DESIGN §4). Returns a zone
/// name if the range must not be judged for C01–C03.
pub fn ast_zone(_ast: &RangeAst) -> Option<&'static str> {
    None
}
