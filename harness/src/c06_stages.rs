//! Extra stages of the C06 check that need other tools / profiles: assertions-off slice,
//! cachegrind instruction counts (logical time for the "roughly linear" clause), valgrind
//! memcheck and Miri slices. Every tool failure is a harness error / inconclusive, never a
//! violation; only a tool *report* about the crate's execution is a violation.

use crate::monitors::c06::{FAMILIES, LIN_OPS};
use crate::runner::*;
use serde_json::{json, Value};
use std::path::Path;
use std::process::{Command, Stdio};
use std::sync::{Arc, Mutex};

fn exe() -> std::path::PathBuf {
    std::env::current_exe().expect("current_exe")
}

fn add_violation(m: &mut Merged, sig: &str, witness: Value, detail: String) {
    let sig = sig.replace(char::is_whitespace, "_");
    m.violations.entry(sig.clone()).and_modify(|v| v.count += 1).or_insert(Violation { sig, witness, detail, count: 1 });
}

pub fn release_slice(vdir: &Path, m: &mut Merged) {
    let bin = vdir.join("target/release/verif-harness");
    let out = Command::new(&bin).arg("release-slice").arg("x").stdin(Stdio::null()).output();
    match out {
        Ok(o) if o.status.success() => {
            let v: Value = serde_json::from_slice(&o.stdout).unwrap_or(json!({}));
            let n = v["executions"].as_u64().unwrap_or(0);
            m.evals += n;
            m.strata.insert("T-assertions-off-slice (tuple conversions incl. negative, limit arithmetic)".into(), (n, false));
            m.classes.insert("assertions-off-slice".into());
            if let Some(p) = v["panics"].as_array() {
                for x in p {
                    add_violation(m, "panic/assertions-off-build", json!({"case": x}), x.as_str().unwrap_or("").to_string());
                }
            }
            if n == 0 {
                m.harness_errors.push("release slice executed nothing".into());
            }
        }
        Ok(o) => {
            let code = format!("{}", o.status);
            if code.contains("signal: 6") || code.contains("signal: 11") || code.contains("signal: 4") || code.contains("signal: 7") {
                add_violation(m, &format!("abort/assertions-off-build/{}", code.replace(' ', "")), json!({"stage": "release-slice"}), format!("release slice died: {} {}", code, String::from_utf8_lossy(&o.stderr)));
            } else {
                m.harness_errors.push(format!("release slice failed: {} {}", code, String::from_utf8_lossy(&o.stderr)));
            }
        }
        Err(e) => m.harness_errors.push(format!("cannot run release binary {}: {}", bin.display(), e)),
    }
}

fn irefs(family: &str, op: &str, n: usize) -> Result<u64, String> {
    let out = Command::new("valgrind")
        .args(["--tool=cachegrind", "--cache-sim=no", "--cachegrind-out-file=/dev/null"])
        .arg(exe())
        .args(["lin", family, op, &n.to_string()])
        .stdin(Stdio::null())
        .output()
        .map_err(|e| format!("valgrind: {}", e))?;
    if !out.status.success() {
        return Err(format!("cachegrind run {} {} {} exited with {}: {}", family, op, n, out.status, String::from_utf8_lossy(&out.stderr).lines().rev().take(3).collect::<Vec<_>>().join(" | ")));
    }
    let err = String::from_utf8_lossy(&out.stderr);
    for line in err.lines() {
        if let Some(pos) = line.find("refs:") {
            if line.contains("I") {
                let digits: String = line[pos + 5..].chars().filter(|c| c.is_ascii_digit()).collect();
                if let Ok(v) = digits.parse::<u64>() {
                    return Ok(v);
                }
            }
        }
    }
    Err(format!("no 'I refs' line in cachegrind output for {} {} {}", family, op, n))
}

/// (I(4n) − I(2n)) / (I(2n) − I(n)): 2 for linear, 4 for quadratic; differences cancel start-up cost.
pub fn linear_one(family: &str, op: &str, m: &mut Merged) {
    linear_jobs(Tier::Quick, vec![(family.to_string(), op.to_string())], m)
}

pub fn linear_stage(tier: Tier, m: &mut Merged) {
    let mut jobs: Vec<(String, String)> = vec![];
    for f in FAMILIES {
        for op in LIN_OPS {
            jobs.push((f.to_string(), op.to_string()));
        }
    }
    linear_jobs(tier, jobs, m)
}

fn linear_jobs(tier: Tier, jobs: Vec<(String, String)>, m: &mut Merged) {
    let base: usize = 16 * 1024;
    let scale: Vec<usize> = if tier == Tier::Thorough { vec![1, 4] } else { vec![1] };
    let results: Arc<Mutex<Vec<(String, String, usize, Result<[u64; 3], String>)>>> = Arc::new(Mutex::new(vec![]));
    let queue: Arc<Mutex<Vec<(String, String, usize)>>> = Arc::new(Mutex::new(jobs.iter().flat_map(|(f, o)| scale.iter().map(move |s| (f.clone(), o.clone(), base * s))).collect()));
    let workers = std::thread::available_parallelism().map(|n| n.get()).unwrap_or(4).min(16);
    let mut hs = vec![];
    for _ in 0..workers {
        let q = queue.clone();
        let r = results.clone();
        hs.push(std::thread::spawn(move || loop {
            let job = q.lock().unwrap().pop();
            let (f, o, n) = match job {
                Some(j) => j,
                None => break,
            };
            // measure at n, 2n, 4n; while the growth ratio is neither clearly linear nor clearly
            // quadratic, escalate n by 8 (a small quadratic coefficient needs larger inputs to
            // dominate the linear work) — at most twice
            let mut n = n;
            let mut res;
            let mut round = 0;
            loop {
                res = (|| -> Result<[u64; 3], String> { Ok([irefs(&f, &o, n)?, irefs(&f, &o, 2 * n)?, irefs(&f, &o, 4 * n)?]) })();
                let unclear = match &res {
                    Ok([a, b, c]) => {
                        let d1 = b.saturating_sub(*a) as f64;
                        let d2 = c.saturating_sub(*b) as f64;
                        !((*c as f64) < 1.5 * (*a as f64) || d1 < 50_000.0) && d2 / d1 > 2.25 && d2 / d1 < 3.5
                    }
                    Err(_) => false,
                };
                round += 1;
                if !unclear || round > 2 {
                    break;
                }
                n *= 8;
            }
            r.lock().unwrap().push((f, o, n, res));
        }));
    }
    for h in hs {
        let _ = h.join();
    }
    let res = results.lock().unwrap();
    let mut table = vec![];
    for (f, o, n, r) in res.iter() {
        match r {
            Err(e) => {
                *m.inconclusive.entry(format!("cachegrind stage: {}", e)).or_insert(0) += 1;
            }
            Ok([a, b, c]) => {
                m.evals += 3;
                let d1 = b.saturating_sub(*a) as f64;
                let d2 = c.saturating_sub(*b) as f64;
                let (ratio, verdict) = if (*c as f64) < 1.5 * (*a as f64) || d1 < 50_000.0 {
                    (0.0, "flat") // input rejected / consumed in (near) constant work
                } else {
                    let ratio = d2 / d1;
                    (ratio, if ratio <= 2.6 { "linear" } else if ratio >= 3.5 { "superlinear" } else { "unclear" })
                };
                m.classes.insert(format!("lin:{}:{}:{}", o, f, verdict));
                table.push(json!({"op": o, "family": f, "n": n, "I": [a, b, c], "ratio": (ratio * 100.0).round() / 100.0, "verdict": verdict}));
                match verdict {
                    "superlinear" => add_violation(
                        m,
                        &format!("superlinear/{}/{}", o, f),
                        json!({"op": o, "family": f, "n": n, "instructions": [a, b, c]}),
                        format!("{} on input family {:?}: instructions at n={}, 2n, 4n are {}, {}, {}; growth ratio {:.2} (2 = linear, 4 = quadratic)", o, f, n, a, b, c, ratio),
                    ),
                    "unclear" => {
                        *m.inconclusive.entry(format!("cachegrind ratio {:.2} for {} on family {} is between the linear and quadratic thresholds", ratio, o, f)).or_insert(0) += 1;
                    }
                    _ => {}
                }
            }
        }
    }
    m.extra.insert("linear_time_table".into(), Value::Array(table.clone()));
    let nruns = table.len() as u64;
    m.strata.insert("C-cachegrind-instruction-counts (n, 2n, 4n per family x operation)".into(), (nruns, true));
    m.samples.entry("C-cachegrind".into()).or_default().extend(table.into_iter().take(6));
}

pub fn memcheck_stage(m: &mut Merged) {
    let out = Command::new("valgrind").args(["--error-exitcode=99", "--leak-check=no", "-q"]).arg(exe()).args(["sanitizer-slice", "x", "0/1"]).stdin(Stdio::null()).output();
    match out {
        Ok(o) => {
            let so = String::from_utf8_lossy(&o.stdout).to_string();
            let se = String::from_utf8_lossy(&o.stderr).to_string();
            let done = so.lines().find(|l| l.starts_with("SLICE-DONE")).map(|l| l.to_string());
            if o.status.code() == Some(99) {
                let first = se.lines().filter(|l| l.contains("==")).take(12).collect::<Vec<_>>().join(" | ");
                add_violation(m, "ub/memcheck-report", json!({"stage": "memcheck"}), first);
            } else if let Some(d) = done {
                let n: u64 = d.split("executions=").nth(1).and_then(|x| x.split_whitespace().next()).and_then(|x| x.parse().ok()).unwrap_or(0);
                m.evals += n;
                m.strata.insert("V-valgrind-memcheck-slice".into(), (n, false));
                m.classes.insert("memcheck-slice-clean".into());
                for l in so.lines().filter(|l| l.starts_with("SLICE-PANIC")) {
                    add_violation(m, "panic/sanitizer-slice", json!({"line": l}), l.to_string());
                }
            } else {
                *m.inconclusive.entry(format!("memcheck slice did not finish: {} {}", o.status, se.lines().rev().take(3).collect::<Vec<_>>().join(" | "))).or_insert(0) += 1;
            }
        }
        Err(e) => {
            *m.inconclusive.entry(format!("valgrind not runnable: {}", e)).or_insert(0) += 1;
        }
    }
}

pub fn miri_stage(vdir: &Path, m: &mut Merged) {
    let parts = 8usize;
    let hdir = vdir.join("harness");
    let mut kids = vec![];
    // build once (first process), then run the parts in parallel
    let build = Command::new("cargo")
        .current_dir(&hdir)
        .args(["+nightly", "miri", "run", "--offline", "--", "sanitizer-slice", "x", &format!("{}/{}", parts, parts + 1)])
        .env("RUSTFLAGS", "--cfg nodejs_semver_verif")
        .env("MIRIFLAGS", "-Zmiri-disable-isolation")
        .env("CARGO_TARGET_DIR", vdir.join("target/miri"))
        .stdin(Stdio::null())
        .output();
    match build {
        Ok(o) if o.status.success() => {}
        Ok(o) => {
            *m.inconclusive.entry(format!("miri build/run failed ({}): {}", o.status, String::from_utf8_lossy(&o.stderr).lines().rev().take(4).collect::<Vec<_>>().join(" | "))).or_insert(0) += 1;
            return;
        }
        Err(e) => {
            *m.inconclusive.entry(format!("cargo +nightly miri not runnable: {}", e)).or_insert(0) += 1;
            return;
        }
    }
    for i in 0..parts {
        let child = Command::new("cargo")
            .current_dir(&hdir)
            .args(["+nightly", "miri", "run", "--offline", "--", "sanitizer-slice", "x", &format!("{}/{}", i, parts)])
            .env("RUSTFLAGS", "--cfg nodejs_semver_verif")
            .env("MIRIFLAGS", "-Zmiri-disable-isolation")
            .env("CARGO_TARGET_DIR", vdir.join("target/miri"))
            .stdin(Stdio::null())
            .stdout(Stdio::piped())
            .stderr(Stdio::piped())
            .spawn();
        if let Ok(c) = child {
            kids.push((i, c));
        }
    }
    let mut total = 0u64;
    for (i, c) in kids {
        match c.wait_with_output() {
            Ok(o) => {
                let so = String::from_utf8_lossy(&o.stdout).to_string();
                let se = String::from_utf8_lossy(&o.stderr).to_string();
                if se.contains("Undefined Behavior") || se.contains("error: unsupported operation") && !se.contains("SLICE-DONE") {
                    let first = se.lines().skip_while(|l| !l.contains("error")).take(10).collect::<Vec<_>>().join(" | ");
                    if se.contains("Undefined Behavior") {
                        add_violation(m, "ub/miri-report", json!({"stage": "miri", "part": i}), first);
                    } else {
                        *m.inconclusive.entry(format!("miri part {} hit an unsupported operation: {}", i, first)).or_insert(0) += 1;
                    }
                    continue;
                }
                match so.lines().find(|l| l.starts_with("SLICE-DONE")) {
                    Some(d) => {
                        total += d.split("executions=").nth(1).and_then(|x| x.split_whitespace().next()).and_then(|x| x.parse().ok()).unwrap_or(0);
                        for l in so.lines().filter(|l| l.starts_with("SLICE-PANIC")) {
                            add_violation(m, "panic/sanitizer-slice", json!({"line": l}), l.to_string());
                        }
                    }
                    None => {
                        *m.inconclusive.entry(format!("miri part {} did not finish: {}", i, se.lines().rev().take(3).collect::<Vec<_>>().join(" | "))).or_insert(0) += 1;
                    }
                }
            }
            Err(e) => {
                *m.inconclusive.entry(format!("miri part {}: {}", i, e)).or_insert(0) += 1;
            }
        }
    }
    m.evals += total;
    m.strata.insert("M-miri-slice".into(), (total, false));
    if total > 0 {
        m.classes.insert("miri-slice-clean".into());
    }
}

pub fn run_all(tier: Tier, vdir: &Path, m: &mut Merged) {
    release_slice(vdir, m);
    linear_stage(tier, m);
    memcheck_stage(m);
    if tier == Tier::Thorough {
        miri_stage(vdir, m);
    }
}
