//! Model of the version grammar for C05/C12/C17: a hand-written recogniser + denotation.
//!   L_must = strict SemVer 2.0.0 strings (components <= MAX_SAFE, length <= 256)
//!   L_max  = ws* [vV]? ws* core ( '-' ids | letter-initial ids )? ( '+' ids )? ws*
//!            with decimal components (leading zeros allowed) <= MAX_SAFE, length <= 256
//! `s ∈ L_must ⇒ parse must succeed`; `parse succeeds ⇒ s ∈ L_max`; in between both are fine.

use crate::mv::*;

#[derive(Clone, Debug, Default)]
pub struct Feats {
    pub lead_ws: bool,
    pub v_prefix: bool,
    pub inner_ws: bool,
    pub trail_ws: bool,
    pub hyphenless: bool,
    pub lead_zero_component: bool,
    pub lead_zero_numeric_id: bool,
    pub has_pre: bool,
    pub has_build: bool,
    pub huge_numeric_id: bool, // all-digit identifier >= 2^64
}

impl Feats {
    pub fn strict(&self) -> bool {
        !(self.lead_ws || self.v_prefix || self.inner_ws || self.trail_ws || self.hyphenless || self.lead_zero_component || self.lead_zero_numeric_id)
    }
    pub fn describe(&self) -> String {
        let mut f = vec![];
        for (b, n) in [
            (self.lead_ws, "lead-ws"),
            (self.v_prefix, "v"),
            (self.inner_ws, "v-ws"),
            (self.trail_ws, "trail-ws"),
            (self.hyphenless, "hyphenless"),
            (self.lead_zero_component, "zero-padded-component"),
            (self.lead_zero_numeric_id, "zero-padded-id"),
            (self.has_pre, "pre"),
            (self.has_build, "build"),
            (self.huge_numeric_id, "huge-numeric-id"),
        ] {
            if b {
                f.push(n);
            }
        }
        if f.is_empty() {
            "core".into()
        } else {
            f.join("+")
        }
    }
}

#[derive(Clone, Debug)]
pub struct VParse {
    pub major: u64,
    pub minor: u64,
    pub patch: u64,
    pub pre: Vec<String>,
    pub build: Vec<String>,
    pub feats: Feats,
    /// byte offsets of the three components (for C17)
    pub comp_at: [usize; 3],
}

#[derive(Clone, Debug)]
pub enum VClass {
    Must(VParse),
    Max(VParse),
    Out { core_ok: bool, why: &'static str, at: usize },
}

pub const MAX_LENGTH: usize = 256;

fn is_id_char(c: u8) -> bool {
    c.is_ascii_alphanumeric() || c == b'-'
}

pub fn char_class(s: &str, at: usize) -> &'static str {
    match s[at..].chars().next() {
        None => "end",
        Some(c) if c.is_ascii_digit() => "digit",
        Some(c) if c.is_ascii_alphabetic() => "letter",
        Some('-') => "hyphen",
        Some('+') => "plus",
        Some('.') => "dot",
        Some(c) if c.is_whitespace() => "blank",
        Some(c) if !c.is_ascii() => "non-ascii",
        Some(_) => "other",
    }
}

/// identifiers: one or more non-empty dot-separated runs of [0-9A-Za-z-]; returns (ids, next pos)
fn ids(b: &[u8], mut i: usize) -> Option<(Vec<String>, usize)> {
    let mut out = vec![];
    loop {
        let st = i;
        while i < b.len() && is_id_char(b[i]) {
            i += 1;
        }
        if i == st {
            return None;
        }
        out.push(String::from_utf8_lossy(&b[st..i]).to_string());
        if i < b.len() && b[i] == b'.' {
            i += 1;
            continue;
        }
        return Some((out, i));
    }
}

pub fn classify(s: &str) -> VClass {
    if s.len() > MAX_LENGTH {
        return VClass::Out { core_ok: false, why: "too-long", at: 0 };
    }
    let b = s.as_bytes();
    let mut f = Feats::default();
    let mut i = 0;
    let skip_ws = |i: &mut usize| -> bool {
        let st = *i;
        while *i < s.len() {
            let c = s[*i..].chars().next().unwrap();
            if c.is_whitespace() {
                *i += c.len_utf8();
            } else {
                break;
            }
        }
        *i > st
    };
    f.lead_ws = skip_ws(&mut i);
    if i < b.len() && (b[i] == b'v' || b[i] == b'V') {
        f.v_prefix = true;
        i += 1;
        f.inner_ws = skip_ws(&mut i);
    }
    let mut comps = [0u64; 3];
    let mut comp_at = [0usize; 3];
    for k in 0..3 {
        let st = i;
        while i < b.len() && b[i].is_ascii_digit() {
            i += 1;
        }
        if i == st {
            return VClass::Out { core_ok: false, why: "core-missing-digits", at: i };
        }
        let d = &s[st..i];
        comp_at[k] = st;
        if d.len() > 1 && d.starts_with('0') {
            f.lead_zero_component = true;
        }
        let t = d.trim_start_matches('0');
        // value <= MAX_SAFE (15 digits)
        let v: u64 = if t.len() > 15 {
            return VClass::Out { core_ok: false, why: "component-too-big", at: st };
        } else if t.is_empty() {
            0
        } else {
            t.parse().unwrap()
        };
        if v > MAX_SAFE {
            return VClass::Out { core_ok: false, why: "component-too-big", at: st };
        }
        comps[k] = v;
        if k < 2 {
            if i < b.len() && b[i] == b'.' {
                i += 1;
            } else {
                return VClass::Out { core_ok: false, why: "core-missing-dot", at: i };
            }
        }
    }
    let mut pre = vec![];
    let mut build = vec![];
    if i < b.len() && b[i] == b'-' {
        match ids(b, i + 1) {
            Some((p, n)) => {
                pre = p;
                i = n;
            }
            None => return VClass::Out { core_ok: true, why: "empty-identifier-after-hyphen", at: i + 1 },
        }
    } else if i < b.len() && b[i].is_ascii_alphabetic() {
        f.hyphenless = true;
        match ids(b, i) {
            Some((p, n)) => {
                pre = p;
                i = n;
            }
            None => return VClass::Out { core_ok: true, why: "empty-identifier", at: i },
        }
    }
    if i < b.len() && b[i] == b'+' {
        match ids(b, i + 1) {
            Some((p, n)) => {
                build = p;
                i = n;
            }
            None => return VClass::Out { core_ok: true, why: "empty-identifier-after-plus", at: i + 1 },
        }
    }
    let before_trail = i;
    f.trail_ws = skip_ws(&mut i);
    if i != s.len() {
        return VClass::Out { core_ok: true, why: "trailing-junk", at: before_trail };
    }
    for id in pre.iter().chain(build.iter()) {
        if all_digits(id) {
            if id.len() > 1 && id.starts_with('0') {
                f.lead_zero_numeric_id = true;
            }
            if id.parse::<u64>().is_err() {
                f.huge_numeric_id = true;
            }
        }
    }
    f.has_pre = !pre.is_empty();
    f.has_build = !build.is_empty();
    let vp = VParse { major: comps[0], minor: comps[1], patch: comps[2], pre, build, feats: f.clone(), comp_at };
    if f.strict() {
        VClass::Must(vp)
    } else {
        VClass::Max(vp)
    }
}

/// Does the crate's identifier list denote the text identifiers? All-digit identifiers that
/// fit u64 must be `Numeric(value)`; all-digit ones beyond u64 may be either; others must be
/// `AlphaNumeric(text)`.
pub fn ids_match(text_ids: &[String], got: &[nodejs_semver::Identifier]) -> bool {
    use nodejs_semver::Identifier::*;
    if text_ids.len() != got.len() {
        return false;
    }
    text_ids.iter().zip(got.iter()).all(|(t, g)| {
        if all_digits(t) {
            match t.parse::<u64>() {
                Ok(n) => matches!(g, Numeric(m) if *m == n),
                Err(_) => match g {
                    AlphaNumeric(s) => s == t,
                    Numeric(_) => false,
                },
            }
        } else {
            matches!(g, AlphaNumeric(s) if s == t)
        }
    })
}
