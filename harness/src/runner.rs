//! Recording context for monitors, shard orchestration, verdicts, evidence, known findings.

use serde_json::{json, Map, Value};
use std::collections::{BTreeMap, BTreeSet, HashSet};
use std::io::Write;
use std::path::{Path, PathBuf};
use std::process::{Command, Stdio};
use std::time::{Duration, Instant};

#[derive(Clone, Copy, PartialEq, Eq, Debug)]
pub enum Tier {
    Quick,
    Thorough,
}

impl Tier {
    pub fn name(&self) -> &'static str {
        match self {
            Tier::Quick => "quick",
            Tier::Thorough => "thorough",
        }
    }
    /// case-count budget of a random stratum. The literals in the monitors are base values; the
    /// tier factor (quick x5, thorough x8; override with VERIF_BUDGET=<factor>) scales them.
    pub fn n(&self, quick: u64, thorough: u64) -> u64 {
        let f: u64 = std::env::var("VERIF_BUDGET").ok().and_then(|s| s.parse().ok()).unwrap_or(match self {
            Tier::Quick => 5,
            Tier::Thorough => 8,
        });
        self.pick(quick, thorough) * f.max(1)
    }
    /// pick a budget
    pub fn pick<T>(&self, quick: T, thorough: T) -> T {
        match self {
            Tier::Quick => quick,
            Tier::Thorough => thorough,
        }
    }
}

pub const HASH_CAP: usize = 6_000_000;

#[derive(Clone, Debug)]
pub struct Violation {
    pub sig: String,
    pub witness: Value,
    pub detail: String,
    pub count: u64,
}

pub struct Ctx {
    pub prop: String,
    pub tier: Tier,
    pub seed: u64,
    pub shard: usize,
    pub nshards: usize,
    pub trace: bool,
    pub replaying: bool,
    pub replay_target: Option<u64>,
    hb_path: Option<PathBuf>,
    hb_last: std::cell::Cell<Instant>,
    begins: std::cell::Cell<u64>,
    /// (start, case index) of the case that runs now; (seconds, case index) of the slowest so far
    case_started: std::cell::Cell<Option<(Instant, u64)>>,
    slowest: std::cell::Cell<(f64, u64)>,
    counter: u64,
    stratum: String,
    pub evals: u64,
    pub strata: BTreeMap<String, (u64, bool)>, // cases, exhaustive
    pub classes: BTreeSet<String>,
    pub case_hashes: HashSet<u64>,
    pub hash_overflow: u64,
    pub samples: BTreeMap<String, Vec<Value>>,
    pub violations: BTreeMap<String, Violation>,
    pub skipped: BTreeMap<String, u64>,
    pub inconclusive: BTreeMap<String, u64>,
    pub notes: BTreeMap<String, u64>,
}

pub fn hash64(s: &str) -> u64 {
    let mut h: u64 = 0xcbf29ce484222325;
    for b in s.bytes() {
        h ^= b as u64;
        h = h.wrapping_mul(0x100000001b3);
    }
    h ^ (h >> 29)
}

impl Ctx {
    pub fn new(prop: &str, tier: Tier, seed: u64, shard: usize, nshards: usize) -> Ctx {
        Ctx {
            prop: prop.to_string(),
            tier,
            seed,
            shard,
            nshards,
            trace: std::env::var("VERIF_TRACE").is_ok(),
            replaying: false,
            replay_target: None,
            hb_path: std::env::var("VERIF_HB").ok().map(PathBuf::from),
            hb_last: std::cell::Cell::new(Instant::now()),
            begins: std::cell::Cell::new(0),
            case_started: std::cell::Cell::new(None),
            slowest: std::cell::Cell::new((0.0, 0)),
            counter: 0,
            stratum: "default".into(),
            evals: 0,
            strata: BTreeMap::new(),
            classes: BTreeSet::new(),
            case_hashes: HashSet::new(),
            hash_overflow: 0,
            samples: BTreeMap::new(),
            violations: BTreeMap::new(),
            skipped: BTreeMap::new(),
            inconclusive: BTreeMap::new(),
            notes: BTreeMap::new(),
        }
    }
    pub fn stratum(&mut self, name: &str, exhaustive: bool) {
        self.stratum = name.to_string();
        self.strata.entry(name.to_string()).or_insert((0, exhaustive));
    }
    /// Round-robin ownership of cases: every shard walks the same deterministic case sequence
    /// and executes only its own share.
    pub fn take(&mut self) -> bool {
        let c = self.counter;
        self.counter += 1;
        // heartbeat for the orchestrator's stall detection (progress = case counter)
        if let Some(p) = &self.hb_path {
            if self.hb_last.get().elapsed() > Duration::from_millis(500) {
                let _ = std::fs::write(p, format!("{} {} {}", c, self.evals, self.begins.get()));
                self.hb_last.set(Instant::now());
            }
        }
        if self.replaying {
            return self.replay_target.map(|t| t == c).unwrap_or(true);
        }
        let mine = (c % self.nshards as u64) as usize == self.shard;
        if mine {
            self.strata.entry(self.stratum.clone()).or_insert((0, false)).0 += 1;
        }
        mine
    }
    /// take in blocks (cheaper generation skipping): block index owned?
    pub fn owns(&self, index: u64) -> bool {
        self.replaying || (index % self.nshards as u64) as usize == self.shard
    }
    pub fn count_case(&mut self) {
        self.strata.entry(self.stratum.clone()).or_insert((0, false)).0 += 1;
    }
    /// announce the case about to run (only in trace mode: used to find the case that kills
    /// or hangs a shard)
    pub fn begin(&self, label: impl FnOnce() -> String) {
        // wall time of the case that just ended (the harness watches its own cases: none may
        // come near the stall threshold of the orchestrator)
        let now = Instant::now();
        if let Some((t0, idx)) = self.case_started.get() {
            let d = now.duration_since(t0).as_secs_f64();
            if d > self.slowest.get().0 {
                self.slowest.set((d, idx));
            }
        }
        self.case_started.set(Some((now, self.counter.saturating_sub(1))));
        // every announced case is progress: a block of a million strings owned by one `take()`
        // must not look like one stuck case to the orchestrator
        self.begins.set(self.begins.get() + 1);
        if let Some(p) = &self.hb_path {
            if self.hb_last.get().elapsed() > Duration::from_millis(500) {
                let _ = std::fs::write(p, format!("{} {} {}", self.counter, self.evals, self.begins.get()));
                self.hb_last.set(now);
            }
        }
        if self.trace {
            let mut e = std::io::stderr();
            // one short line per case: the tracer reads only the tail of the file
            let l = label().replace('\n', "\\n");
            let short: String = if l.len() > 600 { format!("{}… ({} bytes)", l.chars().take(500).collect::<String>(), l.len()) } else { l };
            let _ = writeln!(e, "TRACE-CASE #{} {}", self.counter.saturating_sub(1), short);
            let _ = e.flush();
        }
    }
    pub fn eval(&mut self, n: u64) {
        self.evals += n;
    }
    pub fn class(&mut self, key: &str) {
        if !self.classes.contains(key) {
            self.classes.insert(key.to_string());
        }
    }
    /// a distinct non-trivial case (identified by its content)
    pub fn nontrivial(&mut self, case_text: &str) {
        if self.case_hashes.len() < HASH_CAP {
            self.case_hashes.insert(hash64(case_text));
        } else {
            self.hash_overflow += 1;
        }
    }
    pub fn nontrivial_h(&mut self, h: u64) {
        if self.case_hashes.len() < HASH_CAP {
            self.case_hashes.insert(h);
        } else {
            self.hash_overflow += 1;
        }
    }
    pub fn sample(&mut self, v: impl FnOnce() -> Value) {
        let e = self.samples.entry(self.stratum.clone()).or_default();
        if e.len() < 3 {
            e.push(v());
        }
    }
    pub fn skip(&mut self, zone: &str) {
        *self.skipped.entry(zone.to_string()).or_insert(0) += 1;
    }
    pub fn inconclusive(&mut self, reason: &str) {
        *self.inconclusive.entry(reason.to_string()).or_insert(0) += 1;
    }
    pub fn note(&mut self, key: &str, n: u64) {
        *self.notes.entry(key.to_string()).or_insert(0) += n;
    }
    /// Report a violation. Per signature the shortest witness is kept.
    pub fn violation(&mut self, sig: &str, mut witness: Value, detail: String) {
        let sig = &sig.replace(char::is_whitespace, "_");
        if let Some(o) = witness.as_object_mut() {
            o.insert("_case".into(), json!(self.counter.saturating_sub(1)));
            o.insert("_stratum".into(), json!(self.stratum));
        }
        let wlen = witness.to_string().len();
        match self.violations.get_mut(sig) {
            Some(v) => {
                v.count += 1;
                if wlen < v.witness.to_string().len() {
                    v.witness = witness;
                    v.detail = detail;
                }
            }
            None => {
                self.violations.insert(sig.to_string(), Violation { sig: sig.to_string(), witness, detail, count: 1 });
            }
        }
    }
    pub fn to_json(&self) -> Value {
        let mut sl = self.slowest.get();
        if let Some((t0, idx)) = self.case_started.get() {
            let d = t0.elapsed().as_secs_f64();
            if d > sl.0 {
                sl = (d, idx);
            }
        }
        let slowest_json = json!({"seconds": (sl.0 * 10.0).round() / 10.0, "case": sl.1, "shard": self.shard});
        json!({
            "evals": self.evals,
            "strata": self.strata.iter().map(|(k,(n,e))| (k.clone(), json!({"cases": n, "exhaustive": e}))).collect::<Map<String,Value>>(),
            "classes": self.classes.iter().collect::<Vec<_>>(),
            "hash_overflow": self.hash_overflow,
            "samples": self.samples,
            "violations": self.violations.values().map(|v| json!({"sig": v.sig, "witness": v.witness, "detail": v.detail, "count": v.count})).collect::<Vec<_>>(),
            "skipped": self.skipped,
            "inconclusive": self.inconclusive,
            "notes": self.notes,
            "slowest_case_s": slowest_json,
        })
    }
}

// ---------------------------------------------------------------------------------------------

pub struct RunSpec {
    pub prop: String,
    pub tier: Tier,
    pub seed: u64,
    pub verif_dir: PathBuf,
    pub rule: String,
    pub floor_classes: usize,
    pub level_text: String,
    pub assumptions: Vec<String>,
    pub nshards: usize,
    pub extra: Value,
}

pub struct Merged {
    pub evals: u64,
    pub strata: BTreeMap<String, (u64, bool)>,
    pub classes: BTreeSet<String>,
    pub hashes: HashSet<u64>,
    pub hash_overflow: u64,
    pub samples: BTreeMap<String, Vec<Value>>,
    pub violations: BTreeMap<String, Violation>,
    pub skipped: BTreeMap<String, u64>,
    pub inconclusive: BTreeMap<String, u64>,
    pub notes: BTreeMap<String, u64>,
    pub harness_errors: Vec<String>,
    pub extra: Map<String, Value>,
    pub slowest: Value,
}

impl Merged {
    pub fn new() -> Merged {
        Merged {
            evals: 0,
            strata: BTreeMap::new(),
            classes: BTreeSet::new(),
            hashes: HashSet::new(),
            hash_overflow: 0,
            samples: BTreeMap::new(),
            violations: BTreeMap::new(),
            skipped: BTreeMap::new(),
            inconclusive: BTreeMap::new(),
            notes: BTreeMap::new(),
            harness_errors: vec![],
            extra: Map::new(),
            slowest: Value::Null,
        }
    }
    pub fn add_json(&mut self, v: &Value) {
        self.evals += v["evals"].as_u64().unwrap_or(0);
        if v["slowest_case_s"]["seconds"].as_f64().unwrap_or(0.0) > self.slowest["seconds"].as_f64().unwrap_or(0.0) {
            self.slowest = v["slowest_case_s"].clone();
        }
        if let Some(m) = v["strata"].as_object() {
            for (k, s) in m {
                let e = self.strata.entry(k.clone()).or_insert((0, false));
                e.0 += s["cases"].as_u64().unwrap_or(0);
                e.1 = s["exhaustive"].as_bool().unwrap_or(false);
            }
        }
        if let Some(a) = v["classes"].as_array() {
            for c in a {
                if let Some(s) = c.as_str() {
                    self.classes.insert(s.to_string());
                }
            }
        }
        self.hash_overflow += v["hash_overflow"].as_u64().unwrap_or(0);
        if let Some(m) = v["samples"].as_object() {
            for (k, arr) in m {
                let e = self.samples.entry(k.clone()).or_default();
                if let Some(arr) = arr.as_array() {
                    for s in arr {
                        if e.len() < 3 {
                            e.push(s.clone());
                        }
                    }
                }
            }
        }
        if let Some(a) = v["violations"].as_array() {
            for x in a {
                let sig = x["sig"].as_str().unwrap_or("?").to_string();
                let nv = Violation {
                    sig: sig.clone(),
                    witness: x["witness"].clone(),
                    detail: x["detail"].as_str().unwrap_or("").to_string(),
                    count: x["count"].as_u64().unwrap_or(1),
                };
                match self.violations.get_mut(&sig) {
                    Some(o) => {
                        o.count += nv.count;
                        if nv.witness.to_string().len() < o.witness.to_string().len() {
                            o.witness = nv.witness;
                            o.detail = nv.detail;
                        }
                    }
                    None => {
                        self.violations.insert(sig, nv);
                    }
                }
            }
        }
        for (field, target) in [("skipped", &mut self.skipped), ("inconclusive", &mut self.inconclusive), ("notes", &mut self.notes)] {
            if let Some(m) = v[field].as_object() {
                for (k, n) in m {
                    *target.entry(k.clone()).or_insert(0) += n.as_u64().unwrap_or(0);
                }
            }
        }
    }
}

pub fn write_hashes(path: &Path, hs: &HashSet<u64>) {
    let mut buf = Vec::with_capacity(hs.len() * 8);
    for h in hs {
        buf.extend_from_slice(&h.to_le_bytes());
    }
    let _ = std::fs::write(path, buf);
}

pub fn read_hashes(path: &Path, into: &mut HashSet<u64>) {
    if let Ok(buf) = std::fs::read(path) {
        for c in buf.chunks_exact(8) {
            let mut a = [0u8; 8];
            a.copy_from_slice(c);
            into.insert(u64::from_le_bytes(a));
        }
    }
}

/// CPU seconds (user + system) consumed so far by a live process, from /proc (None if gone)
pub fn cpu_seconds(pid: u32) -> Option<f64> {
    let st = std::fs::read_to_string(format!("/proc/{}/stat", pid)).ok()?;
    let rest = &st[st.rfind(')')? + 2..];
    let f: Vec<&str> = rest.split_whitespace().collect();
    // after the command name: state is field 0, utime is field 11, stime field 12
    let ut: f64 = f.get(11)?.parse().ok()?;
    let stime: f64 = f.get(12)?.parse().ok()?;
    Some((ut + stime) / 100.0)
}

/// a shard counts as stuck in one case when its heartbeat has not moved while it burned this
/// much CPU (load-independent: a starved process burns no CPU and is simply waited for)
pub const STALL_CPU_S: f64 = 90.0;

pub struct ShardOutcome {
    pub index: usize,
    pub json: Option<Value>,
    pub died: Option<String>, // signal / exit description
    pub timed_out: bool,
    pub stderr_tail: String,
}

/// Spawn `n` shard subprocesses of this very binary and wait for them.
pub fn run_shards(prop: &str, tier: Tier, seed: u64, n: usize, run_dir: &Path, wall_cap: Duration, extra_env: &[(&str, String)]) -> Vec<ShardOutcome> {
    let exe = std::env::current_exe().expect("current_exe");
    std::fs::create_dir_all(run_dir).ok();
    let mut children = vec![];
    for i in 0..n {
        let out = run_dir.join(format!("shard{}.json", i));
        let _ = std::fs::remove_file(&out);
        let errp = run_dir.join(format!("shard{}.err", i));
        let errf = std::fs::File::create(&errp).expect("create err file");
        let mut cmd = Command::new(&exe);
        cmd.arg("shard")
            .arg(prop)
            .arg("--tier")
            .arg(tier.name())
            .arg("--seed")
            .arg(seed.to_string())
            .arg("--shard")
            .arg(format!("{}/{}", i, n))
            .arg("--out")
            .arg(&out)
            .stdin(Stdio::null())
            .stdout(Stdio::null())
            .stderr(errf);
        for (k, v) in extra_env {
            cmd.env(k, v);
        }
        let hb = run_dir.join(format!("shard{}.hb", i));
        let _ = std::fs::remove_file(&hb);
        cmd.env("VERIF_HB", &hb);
        let child = cmd.spawn().expect("spawn shard");
        children.push((i, child, out, errp, hb, String::new(), 0.0f64));
    }
    let start = Instant::now();
    let mut outcomes = vec![];
    let mut pending = children;
    while !pending.is_empty() {
        let mut still = vec![];
        for (i, mut child, out, errp, hb, mut hb_seen, mut cpu_at_change) in pending {
            // stall detection: heartbeat unchanged while the shard keeps burning CPU
            let now_hb = std::fs::read_to_string(&hb).unwrap_or_default();
            let cpu = cpu_seconds(child.id()).unwrap_or(0.0);
            if now_hb != hb_seen {
                hb_seen = now_hb;
                cpu_at_change = cpu;
            } else if cpu - cpu_at_change > STALL_CPU_S {
                let _ = child.kill();
                let _ = child.wait();
                outcomes.push(ShardOutcome { index: i, json: None, died: Some(format!("no progress for {:.0} CPU seconds (stuck in one case)", cpu - cpu_at_change)), timed_out: true, stderr_tail: tail(&errp) });
                continue;
            }
            match child.try_wait() {
                Ok(Some(status)) => {
                    let json = std::fs::read_to_string(&out).ok().and_then(|s| serde_json::from_str::<Value>(&s).ok());
                    let died = if status.success() && json.is_some() { None } else { Some(format!("{}", status)) };
                    outcomes.push(ShardOutcome { index: i, json, died, timed_out: false, stderr_tail: tail(&errp) });
                }
                Ok(None) => {
                    if start.elapsed() > wall_cap {
                        let _ = child.kill();
                        let _ = child.wait();
                        outcomes.push(ShardOutcome { index: i, json: None, died: Some("killed by wall-clock watchdog".into()), timed_out: true, stderr_tail: tail(&errp) });
                    } else {
                        still.push((i, child, out, errp, hb, hb_seen, cpu_at_change));
                    }
                }
                Err(e) => {
                    outcomes.push(ShardOutcome { index: i, json: None, died: Some(format!("wait error {}", e)), timed_out: false, stderr_tail: String::new() });
                }
            }
        }
        pending = still;
        if !pending.is_empty() {
            std::thread::sleep(Duration::from_millis(20));
        }
    }
    outcomes.sort_by_key(|o| o.index);
    outcomes
}

fn tail(p: &Path) -> String {
    let s = std::fs::read_to_string(p).unwrap_or_default();
    let lines: Vec<&str> = s.lines().collect();
    let k = lines.len().saturating_sub(15);
    lines[k..].join("\n")
}

/// Re-run one shard alone in trace mode (every case label goes to a file before the case
/// runs) to find the case that killed or hung it. No limit applies to the shard as a whole —
/// thorough shards legitimately run for minutes — only to a single case: the label not moving
/// while the process burns STALL_CPU_S of CPU means that case hangs.
/// Returns (last case label, how it ended: "hang" | "signal: N …" | "exit ok" | other).
pub fn trace_shard(prop: &str, tier: Tier, seed: u64, idx: usize, n: usize, run_dir: &Path, _unused: u64) -> (Option<String>, String) {
    let exe = std::env::current_exe().expect("current_exe");
    let errp = run_dir.join(format!("trace{}.err", idx));
    let out = run_dir.join(format!("trace{}.json", idx));
    let errf = match std::fs::File::create(&errp) {
        Ok(f) => f,
        Err(e) => return (None, format!("cannot create trace file: {}", e)),
    };
    let child = Command::new(&exe)
        .arg("shard")
        .arg(prop)
        .arg("--tier")
        .arg(tier.name())
        .arg("--seed")
        .arg(seed.to_string())
        .arg("--shard")
        .arg(format!("{}/{}", idx, n))
        .arg("--out")
        .arg(&out)
        .env("VERIF_TRACE", "1")
        .env_remove("VERIF_HB")
        .stdin(Stdio::null())
        .stdout(Stdio::null())
        .stderr(errf)
        .spawn();
    let mut child = match child {
        Ok(c) => c,
        Err(e) => return (None, format!("spawn error {}", e)),
    };
    let last_label = |p: &Path| -> Option<String> {
        // read the tail of the trace file only
        use std::io::{Read, Seek, SeekFrom};
        let mut f = std::fs::File::open(p).ok()?;
        let len = f.metadata().ok()?.len();
        let from = len.saturating_sub(64 * 1024);
        f.seek(SeekFrom::Start(from)).ok()?;
        let mut buf = Vec::new();
        f.read_to_end(&mut buf).ok()?;
        let text = String::from_utf8_lossy(&buf).to_string();
        text.lines().filter(|l| l.starts_with("TRACE-CASE ")).last().map(|l| l["TRACE-CASE ".len()..].to_string())
    };
    let start = Instant::now();
    let mut seen: Option<String> = None;
    let mut cpu_at_change = 0.0f64;
    let how;
    loop {
        match child.try_wait() {
            Ok(Some(status)) => {
                how = if status.success() { "exit ok".to_string() } else { format!("{}", status) };
                break;
            }
            Ok(None) => {}
            Err(e) => {
                how = format!("wait error {}", e);
                break;
            }
        }
        let cur = last_label(&errp);
        let cpu = cpu_seconds(child.id()).unwrap_or(0.0);
        if cur != seen {
            seen = cur;
            cpu_at_change = cpu;
        } else if cpu - cpu_at_change > STALL_CPU_S {
            let _ = child.kill();
            let _ = child.wait();
            how = "hang".to_string();
            break;
        }
        if start.elapsed() > Duration::from_secs(6 * 3600) {
            let _ = child.kill();
            let _ = child.wait();
            how = "trace re-run exceeded the wall-clock watchdog".to_string();
            break;
        }
        std::thread::sleep(Duration::from_millis(200));
    }
    let last = last_label(&errp);
    let _ = std::fs::remove_file(&errp);
    (last, how)
}

// ------------------------------------------------------------------------------------------
// known findings

#[derive(Clone, Debug)]
pub struct Known {
    pub property: String,
    pub signature: String,
    pub status: String,
    pub what: String,
    pub example: String,
}

pub fn load_known(verif_dir: &Path) -> Result<Vec<Known>, String> {
    let p = verif_dir.join("KNOWN_FINDINGS");
    let s = match std::fs::read_to_string(&p) {
        Ok(s) => s,
        Err(_) => return Ok(vec![]),
    };
    let mut out = vec![];
    for (i, line) in s.lines().enumerate() {
        let line = line.trim();
        if line.is_empty() || line.starts_with('#') {
            continue;
        }
        if let Some(rest) = line.strip_prefix("fixed:") {
            let rest = rest.trim();
            let property = rest.split_whitespace().next().and_then(|t| t.strip_prefix("property=")).unwrap_or("").to_string();
            out.push(Known { property, signature: String::new(), status: "fixed".into(), what: rest.to_string(), example: String::new() });
            continue;
        }
        if let Some(rest) = line.strip_prefix("open:") {
            let (head, what) = match rest.find('|') {
                Some(i) => (&rest[..i], rest[i + 1..].trim()),
                None => (rest, ""),
            };
            let mut property = String::new();
            let mut signature = String::new();
            for t in head.split_whitespace() {
                if let Some(v) = t.strip_prefix("property=") {
                    property = v.to_string();
                } else if let Some(v) = t.strip_prefix("signature=") {
                    signature = v.to_string();
                }
            }
            if property.is_empty() || signature.is_empty() {
                return Err(format!("KNOWN_FINDINGS line {}: open entry needs property= and signature=", i + 1));
            }
            out.push(Known { property, signature, status: "open".into(), what: what.to_string(), example: String::new() });
            continue;
        }
        return Err(format!("KNOWN_FINDINGS line {}: unrecognised entry", i + 1));
    }
    Ok(out)
}

pub fn sanitize(sig: &str) -> String {
    let mut s: String = sig.chars().map(|c| if c.is_ascii_alphanumeric() || c == '-' || c == '_' || c == '.' { c } else { '_' }).collect();
    if s.len() > 80 {
        s = format!("{}_{:08x}", &s[..70], hash64(sig) as u32);
    }
    s
}

/// Final verdict: prints KNOWN-FINDING / VIOLATION / INCONCLUSIVE lines, writes replays and
/// evidence, returns the process exit code.
pub fn conclude(spec: &RunSpec, m: &Merged, wall_s: f64) -> i32 {
    let known = match load_known(&spec.verif_dir) {
        Ok(k) => k,
        Err(e) => {
            println!("HARNESS-ERROR: {}", e);
            return 2;
        }
    };
    let mut fresh: Vec<&Violation> = vec![];
    let mut reproduced: Vec<(String, u64)> = vec![];
    for v in m.violations.values() {
        let open = known.iter().find(|k| k.property == spec.prop && k.signature == v.sig && k.status == "open");
        match open {
            Some(k) => {
                println!("KNOWN-FINDING: property={} signature={} example={} reproduced={}x :: {}", spec.prop, v.sig, v.witness, v.count, k.what);
                reproduced.push((v.sig.clone(), v.count));
            }
            None => fresh.push(v),
        }
    }
    // listed open findings that did not reproduce are reported informally (not an error)
    for k in known.iter().filter(|k| k.property == spec.prop && k.status == "open") {
        if !m.violations.contains_key(&k.signature) {
            println!("NOTE: listed known finding sig={} did not reproduce in this run", k.signature);
        }
    }
    let replay_dir = spec.verif_dir.join("replays").join(&spec.prop);
    let mut exit = 0;
    if !fresh.is_empty() {
        std::fs::create_dir_all(&replay_dir).ok();
        for (i, v) in fresh.iter().enumerate() {
            if i >= 20 {
                println!("... {} more distinct violation signatures suppressed", fresh.len() - 20);
                break;
            }
            let path = replay_dir.join(format!("{}.json", sanitize(&v.sig)));
            let body = json!({"property": spec.prop, "signature": v.sig, "witness": v.witness, "detail": v.detail, "count": v.count, "seed": spec.seed, "tier": spec.tier.name()});
            let _ = std::fs::write(&path, serde_json::to_string_pretty(&body).unwrap());
            println!("VIOLATION property={} replay={}", spec.prop, path.display());
            println!("  signature: {}", v.sig);
            println!("  witness:   {}", v.witness);
            println!("  detail:    {}", v.detail);
            println!("  seen:      {}x", v.count);
        }
        exit = 1;
    }
    for (k, n) in &m.inconclusive {
        println!("INCONCLUSIVE: {} ({}x)", k, n);
    }
    for e in &m.harness_errors {
        println!("HARNESS-ERROR: {}", e);
    }
    let distinct = m.hashes.len() as u64;
    if exit == 0 && !m.harness_errors.is_empty() {
        exit = 2;
    }
    if exit == 0 && (m.classes.len() < spec.floor_classes || distinct < 2 || m.evals == 0) {
        println!(
            "INCONCLUSIVE: observed too little (classes {} < floor {}, distinct non-trivial cases {}, evaluations {})",
            m.classes.len(),
            spec.floor_classes,
            distinct,
            m.evals
        );
        exit = 2;
    }
    // evidence
    let mut samples: Vec<Value> = vec![];
    for (st, arr) in &m.samples {
        for s in arr {
            samples.push(json!({"stratum": st, "case": s}));
        }
    }
    if samples.is_empty() {
        samples.push(json!({"note": "no samples recorded"}));
    }
    let exhaustive_all = !m.strata.is_empty() && m.strata.values().all(|(_, e)| *e);
    let mut coverage = json!({
        "slowest_case": m.slowest,
        "evaluations": m.evals,
        "distinct_nontrivial": distinct,
        "rule": spec.rule,
        "samples": samples,
        "exhaustive": exhaustive_all,
        "strata": m.strata.iter().map(|(k,(n,e))| (k.clone(), json!({"cases": n, "exhaustive": e}))).collect::<Map<String,Value>>(),
        "classes_seen_count": m.classes.len(),
        "classes_seen": m.classes.iter().take(400).collect::<Vec<_>>(),
        "distinct_hash_overflow_uncounted": m.hash_overflow,
        "skipped_ambiguous": m.skipped,
        "inconclusive": m.inconclusive,
        "notes": m.notes,
        "known_findings_reproduced": reproduced.iter().map(|(s,n)| json!({"sig": s, "count": n})).collect::<Vec<_>>(),
        "violation_signatures": m.violations.keys().collect::<Vec<_>>(),
        "observation": crate::observe::OBSERVATION,
        "verdict": match exit { 0 => "held on what was observed", 1 => "violated", _ => "inconclusive / harness error" },
    });
    if let Some(c) = coverage.as_object_mut() {
        for (k, v) in &m.extra {
            c.insert(k.clone(), v.clone());
        }
    }
    if let (Some(c), Some(x)) = (coverage.as_object_mut(), spec.extra.as_object()) {
        for (k, v) in x {
            c.insert(k.clone(), v.clone());
        }
    }
    let ev = json!({
        "property_id": spec.prop,
        "tier": spec.tier.name(),
        "seed": spec.seed,
        "level": "exploration",
        "coverage": coverage,
        "assumptions": spec.assumptions,
        "wall_s": wall_s,
        "violations": fresh.len(),
    });
    let evdir = spec.verif_dir.join("evidence");
    std::fs::create_dir_all(&evdir).ok();
    let evp = evdir.join(format!("{}.json", spec.prop));
    if let Err(e) = std::fs::write(&evp, serde_json::to_string_pretty(&ev).unwrap()) {
        println!("HARNESS-ERROR: cannot write evidence {}: {}", evp.display(), e);
        if exit == 0 {
            exit = 2;
        }
    }
    println!(
        "SUMMARY property={} tier={} seed={} evaluations={} distinct_nontrivial={} classes={} violations(fresh)={} known_reproduced={} slowest_case_s={} wall_s={:.1} exit={}",
        spec.prop,
        spec.tier.name(),
        spec.seed,
        m.evals,
        distinct,
        m.classes.len(),
        fresh.len(),
        reproduced.len(),
        m.slowest["seconds"].as_f64().unwrap_or(0.0),
        wall_s,
        exit
    );
    exit
}
