//! Interval model over the version line (model order from mv.rs). Exact for the discrete
//! version order: every version has an immediate successor (`MV::succ`), so emptiness and
//! minimum of an interval are decidable without enumeration.

use crate::mv::*;
use std::cmp::Ordering;

#[derive(Clone, Debug, PartialEq)]
pub enum End {
    Unb,
    Inc(MV),
    Exc(MV),
}

impl End {
    pub fn version(&self) -> Option<&MV> {
        match self {
            End::Unb => None,
            End::Inc(v) | End::Exc(v) => Some(v),
        }
    }
    pub fn kind(&self) -> &'static str {
        match self {
            End::Unb => "U",
            End::Inc(_) => "I",
            End::Exc(_) => "E",
        }
    }
    pub fn text(&self, lower: bool) -> String {
        match (self, lower) {
            (End::Unb, true) => "(-inf".into(),
            (End::Unb, false) => "+inf)".into(),
            (End::Inc(v), true) => format!("[{}", v.text()),
            (End::Exc(v), true) => format!("({}", v.text()),
            (End::Inc(v), false) => format!("{}]", v.text()),
            (End::Exc(v), false) => format!("{})", v.text()),
        }
    }
}

#[derive(Clone, Debug, PartialEq)]
pub struct Iv {
    pub lo: End,
    pub hi: End,
}

/// compare two lower ends: which one starts later is Greater
pub fn cmp_lower(a: &End, b: &End) -> Ordering {
    match (a, b) {
        (End::Unb, End::Unb) => Ordering::Equal,
        (End::Unb, _) => Ordering::Less,
        (_, End::Unb) => Ordering::Greater,
        _ => {
            let c = cmp_mv(a.version().unwrap(), b.version().unwrap());
            if c != Ordering::Equal {
                return c;
            }
            match (a, b) {
                (End::Inc(_), End::Exc(_)) => Ordering::Less,
                (End::Exc(_), End::Inc(_)) => Ordering::Greater,
                _ => Ordering::Equal,
            }
        }
    }
}

/// compare two upper ends: which one ends later is Greater
pub fn cmp_upper(a: &End, b: &End) -> Ordering {
    match (a, b) {
        (End::Unb, End::Unb) => Ordering::Equal,
        (End::Unb, _) => Ordering::Greater,
        (_, End::Unb) => Ordering::Less,
        _ => {
            let c = cmp_mv(a.version().unwrap(), b.version().unwrap());
            if c != Ordering::Equal {
                return c;
            }
            match (a, b) {
                (End::Inc(_), End::Exc(_)) => Ordering::Greater,
                (End::Exc(_), End::Inc(_)) => Ordering::Less,
                _ => Ordering::Equal,
            }
        }
    }
}

impl Iv {
    pub fn all() -> Iv {
        Iv { lo: End::Unb, hi: End::Unb }
    }
    pub fn above_lo(&self, v: &MV) -> bool {
        match &self.lo {
            End::Unb => true,
            End::Inc(l) => mv_le(l, v),
            End::Exc(l) => mv_lt(l, v),
        }
    }
    pub fn below_hi(&self, v: &MV) -> bool {
        match &self.hi {
            End::Unb => true,
            End::Inc(h) => mv_le(v, h),
            End::Exc(h) => mv_lt(v, h),
        }
    }
    /// pure bounds membership (no prerelease gate)
    pub fn contains(&self, v: &MV) -> bool {
        self.above_lo(v) && self.below_hi(v)
    }
    /// gate of the stored interval: an end carrying a prerelease on v's tuple
    pub fn gate_open(&self, v: &MV) -> bool {
        if !v.is_pre() {
            return true;
        }
        for e in [&self.lo, &self.hi] {
            if let Some(b) = e.version() {
                if b.is_pre() && b.tuple() == v.tuple() {
                    return true;
                }
            }
        }
        false
    }
    pub fn admits(&self, v: &MV) -> bool {
        self.contains(v) && self.gate_open(v)
    }
    /// least version within the bounds (ignoring the gate), None if the interval is empty
    pub fn least(&self) -> Option<MV> {
        let cand = match &self.lo {
            End::Unb => MV::new(0, 0, 0).with_pre(&["0"]),
            End::Inc(l) => l.no_build(),
            End::Exc(l) => l.succ(),
        };
        if self.below_hi(&cand) {
            Some(cand)
        } else {
            None
        }
    }
    pub fn is_empty(&self) -> bool {
        self.least().is_none()
    }
    pub fn intersect(&self, o: &Iv) -> Iv {
        let lo = if cmp_lower(&self.lo, &o.lo) == Ordering::Less { o.lo.clone() } else { self.lo.clone() };
        let hi = if cmp_upper(&self.hi, &o.hi) == Ordering::Greater { o.hi.clone() } else { self.hi.clone() };
        Iv { lo, hi }
    }
    pub fn text(&self) -> String {
        format!("{},{}", self.lo.text(true), self.hi.text(false))
    }
    pub fn versions(&self) -> Vec<MV> {
        let mut out = vec![];
        if let Some(v) = self.lo.version() {
            out.push(v.clone());
        }
        if let Some(v) = self.hi.version() {
            out.push(v.clone());
        }
        out
    }
    /// Least version admitted by this interval *with* the prerelease gate of its own ends
    /// (DESIGN Appendix B). Candidates: least release >= lo, and for each gate tuple the
    /// least prerelease of that tuple >= lo.
    pub fn least_admitted(&self) -> Option<MV> {
        let mut cands: Vec<MV> = vec![];
        // least release at or above the lower end
        let rel = match &self.lo {
            End::Unb => MV::new(0, 0, 0),
            End::Inc(l) => {
                if l.is_pre() {
                    l.release()
                } else {
                    l.no_build()
                }
            }
            End::Exc(l) => {
                if l.is_pre() {
                    l.release()
                } else {
                    let mut r = l.release();
                    r.patch += 1;
                    r
                }
            }
        };
        cands.push(rel);
        // gate tuples
        let mut tuples: Vec<(u64, u64, u64)> = vec![];
        for e in [&self.lo, &self.hi] {
            if let Some(b) = e.version() {
                if b.is_pre() && !tuples.contains(&b.tuple()) {
                    tuples.push(b.tuple());
                }
            }
        }
        for t in tuples {
            let t0 = MV::new(t.0, t.1, t.2).with_pre(&["0"]);
            // least prerelease of tuple t that is above the lower end
            let c = match &self.lo {
                End::Unb => Some(t0),
                End::Inc(l) => {
                    if mv_le(l, &t0) {
                        Some(t0)
                    } else if l.tuple() == t && l.is_pre() {
                        Some(l.no_build())
                    } else {
                        None // lower end is above every prerelease of t
                    }
                }
                End::Exc(l) => {
                    if mv_lt(l, &t0) {
                        Some(t0)
                    } else if l.tuple() == t && l.is_pre() {
                        Some(l.succ())
                    } else {
                        None
                    }
                }
            };
            if let Some(c) = c {
                cands.push(c);
            }
        }
        let mut best: Option<MV> = None;
        for c in cands {
            if self.admits(&c) {
                best = match best {
                    None => Some(c),
                    Some(b) => Some(if mv_lt(&c, &b) { c } else { b }),
                };
            }
        }
        best
    }
}

/// union of intervals = bounds of a range
#[derive(Clone, Debug, PartialEq)]
pub struct Bs(pub Vec<Iv>);

impl Bs {
    pub fn contains(&self, v: &MV) -> bool {
        self.0.iter().any(|i| i.contains(v))
    }
    pub fn admits(&self, v: &MV) -> bool {
        self.0.iter().any(|i| i.admits(v))
    }
    pub fn versions(&self) -> Vec<MV> {
        self.0.iter().flat_map(|i| i.versions()).collect()
    }
    pub fn text(&self) -> String {
        self.0.iter().map(|i| i.text()).collect::<Vec<_>>().join(" U ")
    }
    pub fn least_admitted(&self) -> Option<MV> {
        let mut best: Option<MV> = None;
        for i in &self.0 {
            if let Some(c) = i.least_admitted() {
                best = match best {
                    None => Some(c),
                    Some(b) => Some(if mv_lt(&c, &b) { c } else { b }),
                };
            }
        }
        best
    }
    /// some version lies within both (exact)
    pub fn overlaps(&self, o: &Bs) -> Option<MV> {
        for a in &self.0 {
            for b in &o.0 {
                if let Some(w) = a.intersect(b).least() {
                    return Some(w);
                }
            }
        }
        None
    }
    /// least version (bounds only) of `self` minus `o`, by walking candidates: exact.
    /// Candidates for the least element of A \ B are: least(A_i), and succ/at of every
    /// upper end of B (where B stops covering). Returns any witness in A outside B.
    pub fn witness_outside(&self, o: &Bs) -> Option<MV> {
        let mut cands: Vec<MV> = vec![];
        for a in &self.0 {
            if let Some(l) = a.least() {
                cands.push(l);
            }
        }
        for b in &o.0 {
            match &b.hi {
                End::Unb => {}
                End::Inc(h) => cands.push(h.succ()),
                End::Exc(h) => cands.push(h.no_build()),
            }
        }
        cands.into_iter().find(|c| self.contains(c) && !o.contains(c))
    }
}
