//! Shared machinery for the set-operation monitors C07–C10, C13, C15: operands (exhaustive
//! bound-kind table, multi-alternative combinations, parsed random ranges), observation of
//! results, pointwise comparison on boundary-directed probes.

use crate::gen::probe_set;
use crate::interval::*;
use crate::mv::*;
use crate::observe::*;
use crate::rast::*;
use crate::rng::Rng;
use nodejs_semver::Range;
use std::cmp::Ordering;

#[derive(Clone)]
pub struct Operand {
    pub text: String,
    pub range: Range,
    pub b: Bs,
}

pub fn end_text(e: &End, lower: bool) -> String {
    match (e, lower) {
        (End::Unb, _) => String::new(),
        (End::Inc(v), true) => format!(">={}", v.text()),
        (End::Exc(v), true) => format!(">{}", v.text()),
        (End::Inc(v), false) => format!("<={}", v.text()),
        (End::Exc(v), false) => format!("<{}", v.text()),
    }
}

/// text of an interval in primitive-comparator syntax (`>=a <b`, `<b`, `*`)
pub fn iv_text(iv: &Iv) -> String {
    let lo = end_text(&iv.lo, true);
    let hi = end_text(&iv.hi, false);
    match (lo.is_empty(), hi.is_empty()) {
        (true, true) => "*".to_string(),
        (false, true) => lo,
        (true, false) => hi,
        (false, false) => format!("{} {}", lo, hi),
    }
}

/// the same interval with build metadata written on every bound version (`>=1.0.0-a+linux`):
/// the parser keeps it on the stored bound, and it must never matter
pub fn iv_text_build(iv: &Iv, build: &str) -> String {
    let with = |e: &End| -> End {
        match e {
            End::Unb => End::Unb,
            End::Inc(v) => End::Inc(v.clone().with_build_s(build)),
            End::Exc(v) => End::Exc(v.clone().with_build_s(build)),
        }
    };
    iv_text(&Iv { lo: with(&iv.lo), hi: with(&iv.hi) })
}

/// ordered pairs of table operands over the short chain whose bounds carry (different, equal,
/// one-sided) build metadata
pub fn build_metadata_pairs() -> Vec<(Operand, Operand)> {
    let t = table_intervals(&short_chain());
    let mut out = vec![];
    for (i, a) in t.iter().enumerate() {
        for (j, b) in t.iter().enumerate() {
            let (ba, bb) = match (i + 2 * j) % 4 {
                0 => ("linux", "darwin"),
                1 => ("b.7", ""),
                2 => ("", "b.7"),
                _ => ("x", "x"),
            };
            if let (Some(x), Some(y)) = (operand_from_text(&iv_text_build(a, ba)), operand_from_text(&iv_text_build(b, bb))) {
                out.push((x, y));
            }
        }
    }
    out
}

/// the version chain of the bound-kind table: a prerelease, its successor, the release,
/// the release's successor, the next patch, a far version.
pub fn chain() -> Vec<MV> {
    vec![
        MV::new(1, 0, 0).with_pre(&["a"]),
        MV::new(1, 0, 0).with_pre(&["a", "0"]),
        MV::new(1, 0, 0),
        MV::new(1, 0, 1).with_pre(&["0"]),
        MV::new(1, 0, 1),
        MV::new(2, 0, 0),
    ]
}

/// the bottom of the version order: the lowest version there is, its successor, other
/// prereleases of 0.0.0, the release and what follows it
pub fn zero_chain() -> Vec<MV> {
    vec![
        MV::new(0, 0, 0).with_pre(&["0"]),
        MV::new(0, 0, 0).with_pre(&["0", "0"]),
        MV::new(0, 0, 0).with_pre(&["0", "5"]),
        MV::new(0, 0, 0).with_pre(&["a"]),
        MV::new(0, 0, 0),
        MV::new(0, 0, 1).with_pre(&["0"]),
    ]
}

pub fn short_chain() -> Vec<MV> {
    vec![MV::new(1, 0, 0).with_pre(&["a"]), MV::new(1, 0, 0), MV::new(1, 0, 1)]
}

/// every interval with ends of every kind over the chain (empty ones dropped)
pub fn table_intervals(chain: &[MV]) -> Vec<Iv> {
    let mut lows = vec![End::Unb];
    let mut highs = vec![End::Unb];
    for v in chain {
        lows.push(End::Inc(v.clone()));
        lows.push(End::Exc(v.clone()));
        highs.push(End::Inc(v.clone()));
        highs.push(End::Exc(v.clone()));
    }
    let mut out = vec![];
    for lo in &lows {
        for hi in &highs {
            let iv = Iv { lo: lo.clone(), hi: hi.clone() };
            // keep only intervals whose ends are properly ordered (lo version <= hi version and
            // not the degenerate half-open point); `(a, succ(a))` -- empty as a set of versions
            // but well-formed -- is kept on purpose
            let ok = match (lo.version(), hi.version()) {
                (Some(l), Some(h)) => match cmp_mv(l, h) {
                    Ordering::Less => true,
                    Ordering::Equal => matches!((lo, hi), (End::Inc(_), End::Inc(_))),
                    Ordering::Greater => false,
                },
                _ => true,
            };
            if ok {
                out.push(iv);
            }
        }
    }
    out
}

pub fn operand_from_text(text: &str) -> Option<Operand> {
    let range = guarded(|| Range::parse(text)).ok()?.ok()?;
    let b = bounds(&range).ok()?;
    Some(Operand { text: text.to_string(), range, b })
}

pub fn operand_from_range(range: Range, how: &str) -> Result<Operand, String> {
    let b = bounds(&range)?;
    Ok(Operand { text: format!("{} [= {}]", how, range), range, b })
}

/// the one range that is constructed rather than parsed: unbounded on both sides (the parser
/// stores every textual catch-all as `>=0.0.0`)
pub fn any_operand() -> Option<Operand> {
    let r = guarded(Range::any).ok()?;
    let b = bounds(&r).ok()?;
    Some(Operand { text: "Range::any()".to_string(), range: r, b })
}

/// all single-interval operands of the table, plus `Range::any()` (for the properties that
/// speak about all ranges: C07–C10)
pub fn table_operands(chain: &[MV]) -> Vec<Operand> {
    let mut t = table_operands_parsed(chain);
    t.extend(any_operand());
    t
}

/// the table operands that come from `Range::parse` only (C13 and C15 quantify over parsed
/// ranges and their compositions; `Range::any()` prints as `*`, which parses to `>=0.0.0`)
pub fn table_operands_parsed(chain: &[MV]) -> Vec<Operand> {
    table_intervals(chain).iter().filter_map(|iv| operand_from_text(&iv_text(iv))).collect()
}

/// random operand: 1–3 alternatives from the table (or a random parsed range)
pub fn rand_operand(r: &mut Rng, table: &[Iv]) -> Option<Operand> {
    match r.below(11) {
        10 => many_alt_operand(r, table),
        0..=2 => operand_from_text(&iv_text(r.pick(table))),
        3..=6 => {
            let n = 2 + r.below(2);
            let t: Vec<String> = (0..n).map(|_| iv_text(r.pick(table))).collect();
            operand_from_text(&t.join(" || "))
        }
        _ => {
            let nums: &[u64] = if r.chance(2, 3) { &[0, 1, 2] } else { crate::gen::NUMS_POOL };
            let ast = rand_ast(r, nums, false);
            operand_from_text(&ast.plain_text())
        }
    }
}

/// operand whose ends are taken from the boundary probes of another operand's bounds: the
/// exact successors, `-0` / `-0.0` / `-alpha` of the neighbouring tuples, patch±1 … — the
/// relations between two ranges in which inclusive/exclusive and adjacency slips show
pub fn neighbour_operand(r: &mut Rng, a: &Operand) -> Option<Operand> {
    let mut probes = probe_set(&a.b.versions());
    if probes.len() < 2 {
        return None;
    }
    probes.sort_by(cmp_mv);
    let nalt = 1 + r.below(2);
    let mut alts = vec![];
    for _ in 0..nalt {
        let i = r.below(probes.len());
        let j = r.below(probes.len());
        let (l, h) = if i <= j { (&probes[i], &probes[j]) } else { (&probes[j], &probes[i]) };
        let lo = match r.below(4) {
            0 => End::Unb,
            1 | 2 => End::Exc(l.no_build()),
            _ => End::Inc(l.no_build()),
        };
        let hi = match r.below(4) {
            0 => End::Unb,
            1 | 2 => End::Exc(h.no_build()),
            _ => End::Inc(h.no_build()),
        };
        if mv_eq(l, h) && !matches!((&lo, &hi), (End::Inc(_), End::Inc(_)) | (End::Unb, _) | (_, End::Unb)) {
            continue;
        }
        alts.push(iv_text(&Iv { lo, hi }));
    }
    if alts.is_empty() {
        return None;
    }
    operand_from_text(&alts.join(" || "))
}

/// operand with many (4..=9) alternatives from the table, with repeats and nested ones
pub fn many_alt_operand(r: &mut Rng, table: &[Iv]) -> Option<Operand> {
    let n = 4 + r.below(6);
    let mut t: Vec<String> = (0..n).map(|_| iv_text(r.pick(table))).collect();
    if r.chance(1, 2) {
        // a repeated alternative that is not adjacent to its twin
        let k = r.below(t.len());
        let dup = t[k].clone();
        t.push(dup);
    }
    operand_from_text(&t.join(" || "))
}

/// random operand over free versions (prerelease bounds, big numbers)
pub fn rand_free_operand(r: &mut Rng) -> Option<Operand> {
    let n = 1 + r.below(3);
    let mut alts = vec![];
    for _ in 0..n {
        let a = crate::gen::rand_version_mix(r, 2, 3).no_build();
        let b = if r.chance(1, 3) {
            let mut b = a.clone();
            b.pre = crate::gen::rand_ids(r, 2);
            b
        } else {
            crate::gen::rand_version(r, true).no_build()
        };
        let (l, h) = if mv_le(&a, &b) { (a, b) } else { (b, a) };
        let lo = match r.below(3) {
            0 => End::Unb,
            1 => End::Inc(l.clone()),
            _ => End::Exc(l.clone()),
        };
        let hi = match r.below(3) {
            0 => End::Unb,
            1 => End::Inc(h.clone()),
            _ => End::Exc(h.clone()),
        };
        let iv = Iv { lo, hi };
        if mv_eq(&l, &h) && !matches!((&iv.lo, &iv.hi), (End::Inc(_), End::Inc(_)) | (End::Unb, _) | (_, End::Unb)) {
            continue;
        }
        alts.push(iv_text(&iv));
    }
    if alts.is_empty() {
        return None;
    }
    operand_from_text(&alts.join("||"))
}

/// Probes at and next to the bounds of the given sets. Sets with very many bounds (long
/// alternative lists) contribute an evenly spaced subsample of their bound versions plus the
/// first and last few, so the probe count stays bounded whatever the operand size.
pub fn probes_for(bs: &[&Bs]) -> Vec<MV> {
    const CAP: usize = 40;
    let mut basis = vec![];
    for b in bs {
        let vs = b.versions();
        if vs.len() <= CAP + 16 {
            basis.extend(vs);
        } else {
            for i in 0..CAP {
                basis.push(vs[i * vs.len() / CAP].clone());
            }
            basis.extend(vs[..8].iter().cloned());
            basis.extend(vs[vs.len() - 8..].iter().cloned());
        }
    }
    probe_set(&basis)
}

/// Run `f` on a thread with a small (256 KiB) stack: code whose stack depth does not grow with
/// the size of its operands needs a few KiB; recursion that follows the number of alternatives
/// or identifiers overflows, which aborts the shard and is attributed by the orchestrator.
pub fn on_small_stack<T: Send>(f: impl FnOnce() -> T + Send) -> Option<T> {
    std::thread::scope(|s| std::thread::Builder::new().stack_size(256 * 1024).spawn_scoped(s, f).ok()?.join().ok())
}

/// Operand with a long list of alternatives (17..300, occasionally 3000 or 20000): pins, windows, a wide
/// alternative followed by pins inside it, table intervals (heavy overlap and duplicates), a
/// tagged alternative at a late position; ascending, descending, middle-out or shuffled.
/// Counts sit around 16/32/64/256, where fixed-size scratch space or strategy switches would be.
pub fn long_alt_operand(r: &mut Rng, table: &[Iv], allow_huge: bool) -> Option<Operand> {
    long_alt_operand_sized(r, table, if allow_huge { 2 } else { 0 })
}

/// `huge`: 0 = at most 300 alternatives, 1 = sometimes 3000, 2 = sometimes 3000 and, rarely,
/// 20000 (at optimisation level 2 a recursive frame can be as small as 16..48 bytes)
pub fn long_alt_operand_sized(r: &mut Rng, table: &[Iv], huge: u8) -> Option<Operand> {
    const SIZES: &[usize] = &[17, 18, 20, 24, 33, 34, 40, 65, 66, 70, 72, 130, 257, 260, 300];
    let mut n = if r.chance(3, 4) { SIZES[r.below(9)] } else { *r.pick(SIZES) };
    if huge >= 1 && r.chance(1, 12) {
        n = 3000;
    }
    if huge >= 2 && r.chance(1, 30) {
        n = 20_000;
    }
    let mut alts: Vec<String> = match r.below(6) {
        0 => (0..n).map(|k| format!("1.0.{}", k)).collect(),
        1 => {
            // one wide alternative first, pins inside and outside it after
            let mut a = vec![">=1.0.0".to_string()];
            a.extend((1..n).map(|k| format!("{}.0.0", k + 1)));
            a
        }
        2 => (0..n).map(|k| format!(">=1.{}.2 <1.{}.7", k, k)).collect(),
        3 if n <= 300 => (0..n).map(|_| iv_text(r.pick(table))).collect(),
        4 => {
            // release pins and one alternative that opts prereleases in, late in the list
            let mut a: Vec<String> = (0..n - 1).map(|k| format!("{}.0.0", k)).collect();
            let at = if r.chance(2, 3) { a.len() } else { r.below(a.len() + 1) };
            a.insert(at, format!(">={}.0.0-alpha <{}.0.0", n + 60, n + 60));
            return finish_long(r, a, false);
        }
        _ => (0..n).map(|k| format!(">1.0.{} <=1.0.{}", 2 * k, 2 * k + 1)).collect(),
    };
    if alts.is_empty() {
        return None;
    }
    let reorder = true;
    if r.chance(1, 5) {
        // a structurally duplicated alternative far from its twin
        let d = alts[r.below(alts.len())].clone();
        alts.push(d);
    }
    finish_long(r, alts, reorder)
}

fn finish_long(r: &mut Rng, mut alts: Vec<String>, reorder: bool) -> Option<Operand> {
    if reorder {
        match r.below(4) {
            0 => {}
            1 => alts.reverse(),
            2 => {
                // middle-out
                let mut out = vec![];
                let m = alts.len() / 2;
                for i in 0..alts.len() {
                    let k = if i % 2 == 0 { m + i / 2 } else { m - 1 - i / 2 };
                    if k < alts.len() {
                        out.push(alts[k].clone());
                    }
                }
                alts = out;
            }
            _ => {
                for i in (1..alts.len()).rev() {
                    let j = r.below(i + 1);
                    alts.swap(i, j);
                }
            }
        }
    }
    operand_from_text(&alts.join("||"))
}

/// partner for a long operand: a small range cutting through the list's span, a pin on one of
/// its late members, everything, or (rarely) another list so that the result exceeds 256 pieces
pub fn long_partner(r: &mut Rng, long: &Operand, table: &[Iv]) -> Option<Operand> {
    let n = long.b.0.len() as u64;
    let t = match r.below(9) {
        0 => "*".to_string(),
        1 => format!(">=1.0.{} <1.0.{}", n / 3, n.saturating_sub(2).max(n / 3 + 1)),
        2 => format!("1.0.{}", n.saturating_sub(1 + r.below(6) as u64)),
        3 => format!("<1.0.3 || >1.0.{}", n.saturating_sub(6)),
        4 => format!(">={}.0.0 <{}.5.0 || {}.5.0", n / 2, n, n / 4),
        5 => format!(">=1.{}.0 <1.{}.3", n / 2, n.saturating_sub(2)),
        6 => format!("{}.5.0 || >={}.0.0-0", n / 3, n / 2),
        7 if n <= 300 => {
            // another list, sized so that the product stays a few thousand pieces
            let m = 18 + r.below(3);
            let a: Vec<String> = (0..m).map(|k| format!("<=1.0.{} || >=1.{}.0", k * 3 + 1, k)).collect();
            a.join("||")
        }
        _ => return rand_operand(r, table),
    };
    operand_from_text(&t)
}

pub fn sat(r: &Range, v: &MV) -> bool {
    r.satisfies(&v.to_crate())
}

fn rel(o: Ordering) -> &'static str {
    match o {
        Ordering::Less => "<",
        Ordering::Equal => "=",
        Ordering::Greater => ">",
    }
}

/// coverage / signature cell of a pair of single intervals: kinds of the two lower ends and
/// their version relation, same for the upper ends, and lower-vs-upper cross relations.
pub fn cell(a: &Iv, b: &Iv) -> String {
    let vr = |x: &End, y: &End| -> &'static str {
        match (x.version(), y.version()) {
            (Some(p), Some(q)) => rel(cmp_mv(p, q)),
            _ => "~",
        }
    };
    format!(
        "L{}{}{} U{}{}{} X{}{}{} Y{}{}{}",
        a.lo.kind(),
        vr(&a.lo, &b.lo),
        b.lo.kind(),
        a.hi.kind(),
        vr(&a.hi, &b.hi),
        b.hi.kind(),
        a.hi.kind(),
        vr(&a.hi, &b.lo),
        b.lo.kind(),
        a.lo.kind(),
        vr(&a.lo, &b.hi),
        b.hi.kind()
    )
}

/// signature cell: only the tie parts of `cell` (where two ends sit on the same version)
pub fn tie_cell(a: &Bs, b: &Bs) -> String {
    if a.0.len() != 1 || b.0.len() != 1 {
        return format!("multi{}x{}", a.0.len().min(3), b.0.len().min(3));
    }
    let c = cell(&a.0[0], &b.0[0]);
    let ties: Vec<&str> = c.split(' ').filter(|p| p.contains('=')).collect();
    if ties.is_empty() {
        "no-tie".to_string()
    } else {
        ties.join(",")
    }
}
