//! Oracle self-check against frozen answers of real node-semver 7.6.2 (golden/*.jsonl).
//! `gen-golden` emits the question files; golden/answer.js (run once, at authoring time, with
//! the node-semver bundled in this image's npm) adds node's answers. Node is not needed at
//! check time.

use crate::gen::*;
use crate::mv::*;
use crate::rast::*;
use crate::rng::Rng;
use serde_json::{json, Value};
use std::io::Write;
use std::path::Path;

fn partial_json(p: &Partial) -> Value {
    json!({"c": p.comps.iter().map(|c| match c { Xr::Num(n) => n.to_string(), Xr::Wild(ch) => ch.to_string() }).collect::<Vec<_>>(), "pre": p.pre.join("."), "build": p.build.join(".")})
}

fn partial_from(v: &Value) -> Partial {
    let comps = v["c"].as_array().unwrap().iter().map(|c| {
        let s = c.as_str().unwrap();
        match s.parse::<u64>() { Ok(n) => Xr::Num(n), Err(_) => Xr::Wild(s.chars().next().unwrap()) }
    }).collect();
    let ids = |s: &str| -> Vec<String> { if s.is_empty() { vec![] } else { s.split('.').map(|x| x.to_string()).collect() } };
    Partial { comps, pre: ids(v["pre"].as_str().unwrap()), build: ids(v["build"].as_str().unwrap()) }
}

pub fn ast_json(a: &RangeAst) -> Value {
    Value::Array(a.alts.iter().map(|alt| match alt {
        Alt::Hyphen(lo, hi) => json!({"h": [partial_json(lo), partial_json(hi)]}),
        Alt::Set(toks) => json!({"s": toks.iter().map(|t| match t {
            Tok::Cmp(op, p) => json!({"op": op.name(), "p": partial_json(p)}),
            Tok::Garbage(g) => json!({"g": g}),
        }).collect::<Vec<_>>()}),
    }).collect())
}

pub fn ast_from(v: &Value) -> RangeAst {
    let alts = v.as_array().unwrap().iter().map(|a| {
        if let Some(h) = a.get("h") {
            Alt::Hyphen(partial_from(&h[0]), partial_from(&h[1]))
        } else {
            Alt::Set(a["s"].as_array().unwrap().iter().map(|t| {
                if let Some(g) = t.get("g") {
                    Tok::Garbage(g.as_str().unwrap().to_string())
                } else {
                    let name = t["op"].as_str().unwrap();
                    let op = *ALL_OPS.iter().find(|o| o.name() == name).unwrap();
                    Tok::Cmp(op, partial_from(&t["p"]))
                }
            }).collect())
        }
    }).collect();
    RangeAst { alts }
}

fn emit_range(out: &mut impl Write, ast: &RangeAst, sp: &Spelling) {
    let text = ast.render(sp);
    let basis = desugar_range(ast).map(|d| d.versions()).unwrap_or_default();
    let probes: Vec<String> = probe_set(&basis).iter().map(|v| v.text()).collect();
    writeln!(out, "{}", json!({"ast": ast_json(ast), "text": text, "probes": probes})).unwrap();
}

/// Emit golden questions (fixed seed; independent of VERIF_SEED).
pub fn gen(dir: &Path) {
    let mut f = std::fs::File::create(dir.join("ranges.q.jsonl")).unwrap();
    let plain = Spelling::plain();
    // every single comparator over {0,1,2} (+ tags)
    for (op, p) in crate::monitors::c01::e1_comparators(&[0, 1, 2]) {
        emit_range(&mut f, &RangeAst::single(op, p), &plain);
    }
    // hyphen shapes (numbers {0,1})
    let mut hy: Vec<Partial> = vec![];
    for shape in SHAPES {
        hy.extend(partials_of_shape(shape, &[0, 1]));
    }
    hy.push(Partial::full(&MV::new(0, 0, 0).with_pre_s("alpha")));
    hy.push(Partial::full(&MV::new(1, 0, 0).with_pre_s("0")));
    for lo in &hy {
        for hi in &hy {
            emit_range(&mut f, &RangeAst { alts: vec![Alt::Hyphen(lo.clone(), hi.clone())] }, &plain);
        }
    }
    // random compound ranges with loose spellings and garbage
    for i in 0..12000u64 {
        let mut r = Rng::for_case(20260101, "golden-R", i);
        let nums: &[u64] = if r.chance(2, 3) { &[0, 1, 2, 3] } else { NUMS_POOL };
        let ast = rand_ast(&mut r, nums, true);
        let sp = Spelling::random(&mut r);
        emit_range(&mut f, &ast, &sp);
    }
    // version pairs for compare / diff
    let mut g = std::fs::File::create(dir.join("pairs.q.jsonl")).unwrap();
    let mut pool: Vec<MV> = vec![];
    for t in [(0u64, 0u64, 0u64), (0, 0, 1), (0, 1, 0), (1, 0, 0), (1, 1, 0), (1, 1, 1), (2, 0, 0), (1, 0, 2), (1, 2, 0), (10, 0, 0), (MAX_SAFE, 0, 1)] {
        for pre in ["", "0", "1", "10", "a", "A", "a.1", "a.b", "a.1.0", "alpha", "alpha.1", "beta", "rc.1", "-", "0a", "a-", "1.2", "2.1"] {
            pool.push(MV::new(t.0, t.1, t.2).with_pre_s(pre));
        }
    }
    for a in &pool {
        for b in &pool {
            writeln!(g, "{}", json!({"a": a.text(), "b": b.text()})).unwrap();
        }
    }
    for i in 0..20000u64 {
        let mut r = Rng::for_case(20260101, "golden-P", i);
        let small = r.chance(1, 2);
        let a = rand_version(&mut r, small);
        let b = if r.chance(1, 3) {
            let mut b = a.clone();
            b.pre = rand_ids(&mut r, 3);
            b
        } else {
            rand_version(&mut r, true)
        };
        writeln!(g, "{}", json!({"a": a.text(), "b": b.text()})).unwrap();
    }
}

fn read_gz(p: &Path) -> Result<String, String> {
    let out = std::process::Command::new("gzip").arg("-dc").arg(p).output().map_err(|e| format!("gzip -dc {}: {}", p.display(), e))?;
    if !out.status.success() {
        return Err(format!("gzip -dc {} failed", p.display()));
    }
    String::from_utf8(out.stdout).map_err(|e| e.to_string())
}

/// node stores numeric identifiers >= 2^53 as strings and compares them through floats, losing
/// precision; SemVer says "numerically". Such pairs are outside the golden comparison.
fn beyond_double(v: &MV) -> bool {
    v.pre.iter().any(|i| all_digits(i) && i.trim_start_matches('0').len() > 15)
}

pub struct GoldenReport {
    pub ranges: u64,
    pub probe_answers: u64,
    pub ambiguous: u64,
    pub mismatches: Vec<String>,
}

/// Compare the range model with node's frozen answers. Any mismatch outside the declared
/// ambiguity zones means the *oracle* is wrong: the caller exits 2 and reports nothing.
pub fn check_ranges(dir: &Path, limit: usize) -> Result<GoldenReport, String> {
    let s = read_gz(&dir.join("ranges.jsonl.gz"))?;
    let mut rep = GoldenReport { ranges: 0, probe_answers: 0, ambiguous: 0, mismatches: vec![] };
    for (ln, line) in s.lines().enumerate() {
        if ln >= limit {
            break;
        }
        let v: Value = serde_json::from_str(line).map_err(|e| format!("golden line {}: {}", ln + 1, e))?;
        let ast = ast_from(&v["ast"]);
        let des = desugar_range(&ast);
        let node = v["node"].as_str().unwrap_or("");
        let probes = v["probes"].as_array().unwrap();
        rep.ranges += 1;
        if node == "INVALID" {
            // node throws: the model must admit nothing that is judged
            if let Some(d) = &des {
                for pv in probes {
                    let mv = parse_canonical(pv.as_str().unwrap()).unwrap();
                    if d.verdict(&mv) == Verdict::Admit {
                        rep.mismatches.push(format!("{}: node INVALID but model admits {}", v["text"], mv.text()));
                        break;
                    }
                }
            }
            continue;
        }
        let bytes = node.as_bytes();
        for (i, pv) in probes.iter().enumerate() {
            let mv = parse_canonical(pv.as_str().unwrap()).ok_or_else(|| format!("bad probe {}", pv))?;
            let verdict = match &des {
                Some(d) => d.verdict(&mv),
                None => Verdict::Reject,
            };
            rep.probe_answers += 1;
            let want = match bytes.get(i) {
                Some(b'1') => true,
                Some(b'0') => false,
                _ => continue,
            };
            match verdict {
                Verdict::Ambiguous => rep.ambiguous += 1,
                Verdict::Admit | Verdict::Reject => {
                    // node's implementation answer is the "node reading"; outside the zones both readings agree
                    if (verdict == Verdict::Admit) != want && rep.mismatches.len() < 20 {
                        rep.mismatches.push(format!("{} [{}] v={} node={} model={:?}", v["text"], des.as_ref().map(|d| d.text()).unwrap_or_default(), mv.text(), want, verdict));
                    }
                }
            }
        }
    }
    Ok(rep)
}

pub fn check_pairs(dir: &Path) -> Result<(u64, Vec<String>), String> {
    let s = read_gz(&dir.join("pairs.jsonl.gz"))?;
    let mut n = 0;
    let mut bad = vec![];
    for line in s.lines() {
        let v: Value = serde_json::from_str(line).map_err(|e| e.to_string())?;
        let a = parse_canonical(v["a"].as_str().unwrap()).unwrap();
        let b = parse_canonical(v["b"].as_str().unwrap()).unwrap();
        if beyond_double(&a) || beyond_double(&b) {
            continue;
        }
        if let Some(c) = v["cmp"].as_i64() {
            n += 1;
            let m = match cmp_mv(&a, &b) {
                std::cmp::Ordering::Less => -1,
                std::cmp::Ordering::Equal => 0,
                std::cmp::Ordering::Greater => 1,
            };
            if m != c && bad.len() < 20 {
                bad.push(format!("compare({}, {}) node={} model={}", a.text(), b.text(), c, m));
            }
        }
        if let Some(d) = v.get("diff") {
            if !d.is_null() || v.get("diff").is_some() {
                let want = d.as_str().map(|s| s.to_string());
                if v["diff_err"].as_bool() != Some(true) {
                    let got = crate::monitors::c16::model_diff(&a, &b).map(|s| s.to_string());
                    if got != want && bad.len() < 20 {
                        bad.push(format!("diff({}, {}) node={:?} model={:?}", a.text(), b.text(), want, got));
                    }
                }
            }
        }
    }
    Ok((n, bad))
}
