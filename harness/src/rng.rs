//! Small deterministic PRNG (splitmix64 seeding + xoshiro256**). No external crates.

#[derive(Clone)]
pub struct Rng {
    s: [u64; 4],
}

pub fn splitmix(x: &mut u64) -> u64 {
    *x = x.wrapping_add(0x9E3779B97F4A7C15);
    let mut z = *x;
    z = (z ^ (z >> 30)).wrapping_mul(0xBF58476D1CE4E5B9);
    z = (z ^ (z >> 27)).wrapping_mul(0x94D049BB133111EB);
    z ^ (z >> 31)
}

/// FNV-style mixing of a label into a seed, so every stratum / case gets its own stream.
pub fn mix(seed: u64, label: &str, index: u64) -> u64 {
    let mut h = seed ^ 0xcbf29ce484222325;
    for b in label.bytes() {
        h ^= b as u64;
        h = h.wrapping_mul(0x100000001b3);
    }
    h ^= index.wrapping_mul(0x9E3779B97F4A7C15);
    let mut x = h;
    splitmix(&mut x)
}

impl Rng {
    pub fn new(seed: u64) -> Self {
        let mut x = seed;
        let s = [
            splitmix(&mut x),
            splitmix(&mut x),
            splitmix(&mut x),
            splitmix(&mut x),
        ];
        Rng { s }
    }
    pub fn for_case(seed: u64, label: &str, index: u64) -> Self {
        Rng::new(mix(seed, label, index))
    }
    pub fn next(&mut self) -> u64 {
        let r = self.s[1].wrapping_mul(5).rotate_left(7).wrapping_mul(9);
        let t = self.s[1] << 17;
        self.s[2] ^= self.s[0];
        self.s[3] ^= self.s[1];
        self.s[1] ^= self.s[2];
        self.s[0] ^= self.s[3];
        self.s[2] ^= t;
        self.s[3] = self.s[3].rotate_left(45);
        r
    }
    /// uniform in 0..n (n>0)
    pub fn below(&mut self, n: usize) -> usize {
        (self.next() % (n as u64)) as usize
    }
    pub fn chance(&mut self, num: u32, den: u32) -> bool {
        (self.next() % den as u64) < num as u64
    }
    pub fn pick<'a, T>(&mut self, xs: &'a [T]) -> &'a T {
        &xs[self.below(xs.len())]
    }
    pub fn shuffle<T>(&mut self, xs: &mut [T]) {
        for i in (1..xs.len()).rev() {
            let j = self.below(i + 1);
            xs.swap(i, j);
        }
    }
}
