//! Workload of version-like strings shared by C05, C12, C17 (and fed to C06).

use crate::gen::*;
use crate::mv::*;
use crate::rng::Rng;
use crate::runner::*;

pub const SIGMA_V: &[char] = &['0', '1', '9', 'a', '-', '+', '.', 'v', ' '];

/// every string over SIGMA_V with length <= max_len, sharded by a 3-character prefix block
pub fn exhaustive(ctx: &mut Ctx, max_len: usize, f: &mut dyn FnMut(&mut Ctx, &str)) {
    let k = SIGMA_V.len();
    // short strings (length < 3) belong to block "short"
    if ctx.take() {
        ctx_strings_upto(ctx, 2.min(max_len), f);
    }
    if max_len < 3 {
        return;
    }
    let mut buf = String::new();
    for p in 0..k * k * k {
        if !ctx.take() {
            continue;
        }
        let prefix: String = [SIGMA_V[p / (k * k)], SIGMA_V[(p / k) % k], SIGMA_V[p % k]].iter().collect();
        // all suffixes of length 0..=max_len-3
        for len in 0..=(max_len - 3) {
            let total = k.pow(len as u32);
            for idx in 0..total {
                buf.clear();
                buf.push_str(&prefix);
                let mut x = idx;
                for _ in 0..len {
                    buf.push(SIGMA_V[x % k]);
                    x /= k;
                }
                f(ctx, &buf);
            }
        }
    }
}

fn ctx_strings_upto(ctx: &mut Ctx, max_len: usize, f: &mut dyn FnMut(&mut Ctx, &str)) {
    let k = SIGMA_V.len();
    let mut buf = String::new();
    for len in 0..=max_len {
        let total = k.pow(len as u32);
        for idx in 0..total {
            buf.clear();
            let mut x = idx;
            for _ in 0..len {
                buf.push(SIGMA_V[x % k]);
                x /= k;
            }
            f(ctx, &buf);
        }
    }
}

pub const EDIT_CHARS: &[char] = &['0', '1', '9', 'a', 'Z', '-', '+', '.', 'v', 'V', ' ', '\t', '\n', '\0', 'é', 'Ł', 'ű', '_', 'x', '*', '中', '\u{a0}', '\u{3000}', '\u{2028}', '\u{0663}', '\u{ff17}', '\u{00b2}'];

/// canonical corpus for the one-edit neighbourhood
pub fn canonical_corpus(seed: u64, n: usize) -> Vec<String> {
    let mut out: Vec<String> = vec!["1.2.3".into(), "0.0.0".into(), "1.2.3-alpha".into(), "1.2.3-alpha.1".into(), "1.2.3+build".into(), "1.2.3-rc.1+b.2".into(), "10.20.30".into(), "1.0.0-0".into(), "1.0.0--".into(), "900719925474099.900719925474099.900719925474099".into(), "1.2.3-0a.a0.-".into()];
    let mut r = Rng::new(crate::rng::mix(seed, "corpus", 0));
    while out.len() < n {
        out.push(rand_version_mix(&mut r, 1, 2).text());
    }
    out
}

/// every one-edit neighbour (insert / delete / replace at every position, append) of `s`
pub fn one_edits(s: &str, f: &mut dyn FnMut(&str)) {
    let chars: Vec<char> = s.chars().collect();
    for i in 0..=chars.len() {
        for c in EDIT_CHARS {
            let mut t: Vec<char> = chars.clone();
            t.insert(i, *c);
            f(&t.iter().collect::<String>());
        }
        if i < chars.len() {
            let mut t = chars.clone();
            t.remove(i);
            f(&t.iter().collect::<String>());
            for c in EDIT_CHARS {
                if *c != chars[i] {
                    let mut t = chars.clone();
                    t[i] = *c;
                    f(&t.iter().collect::<String>());
                }
            }
        }
    }
}

/// spelling variants of a canonical version (the loose forms the properties list)
pub fn spellings(v: &MV, f: &mut dyn FnMut(&str)) {
    let t = v.text();
    f(&t);
    f(&format!("v{}", t));
    f(&format!("V{}", t));
    f(&format!("v {}", t));
    f(&format!(" {}", t));
    f(&format!("{} ", t));
    f(&format!("  {}\t", t));
    f(&format!("0{}.00{}.0{}", v.major, v.minor, v.patch));
    if v.is_pre() && v.pre[0].as_bytes()[0].is_ascii_alphabetic() {
        let mut s = format!("{}.{}.{}{}", v.major, v.minor, v.patch, v.pre.join("."));
        if !v.build.is_empty() {
            s.push('+');
            s.push_str(&v.build.join("."));
        }
        f(&s);
    }
}

/// strings around MAX_LENGTH and around the numeric limits
pub fn near_limits(r: &mut Rng, f: &mut dyn FnMut(&str)) {
    for len in 250..=260usize {
        for kind in 0..6 {
            let head = match kind {
                0 => "1.2.3-".to_string(),
                1 => "1.2.3".to_string(), // hyphen-less prerelease
                2 => "1.2.3+".to_string(),
                3 => "1.2.3-a.".to_string(),
                4 => "v1.2.3-".to_string(),
                _ => " 1.2.3-x+".to_string(),
            };
            if len <= head.len() {
                continue;
            }
            let fill = len - head.len();
            let mut s = head.clone();
            let c = *r.pick(&['a', 'Z', '-', 'b', '7']);
            for i in 0..fill {
                // a letter first so hyphen-less forms stay letter-initial
                s.push(if i == 0 { 'a' } else if i % 17 == 16 { '.' } else { c });
            }
            if s.ends_with('.') {
                s.pop();
                s.push('q');
            }
            f(&s);
            // same length in bytes but ending in a multi-byte char
            let mut m = s.clone();
            m.pop();
            m.pop();
            m.push('é');
            f(&m);
        }
    }
    // systematic sweep of the MAX_LENGTH boundary: a 1/2/3/4-byte character or a newline starting
    // at every byte position 246..=260 of an over-long (and of a just-fitting) input, and a
    // newline directly followed by a multi-byte character straddling the limit
    for ch in ["b", "é", "中", "😀", "\n", "\r\n", "\t"] {
        for start in 246..=260usize {
            for tail in ["", "t", "tail-tail-tail"] {
                let mut s = String::from("1.2.3-");
                while s.len() < start {
                    s.push('a');
                }
                s.push_str(ch);
                s.push_str(tail);
                f(&s);
            }
        }
    }
    for nl in 248..=256usize {
        for ch in ["é", "中", "😀", "ééééé", "😀😀"] {
            let mut s = String::from("1.2.3-");
            while s.len() < nl {
                s.push('a');
            }
            s.push('\n');
            s.push_str(ch);
            s.push_str("zz");
            f(&s);
        }
    }
    // identifier counts around 8/16/32/64 and up to what fits MAX_LENGTH, in the prerelease, in
    // the build metadata and in both
    // every count of one-character identifiers up to (and one beyond) what fits MAX_LENGTH
    for n in 1..=127usize {
        let ids = vec!["a"; n].join(".");
        f(&format!("1.2.3-{}", ids));
        f(&format!("v0.0.0+{}", ids));
        if n % 2 == 0 {
            let half = vec!["7"; n / 2].join(".");
            f(&format!("1.2.3-{}+{}", half, half));
        }
    }
    for n in [7usize, 8, 9, 15, 16, 17, 31, 32, 33, 63, 64, 65, 100, 120] {
        let ids = |r: &mut Rng, n: usize| -> String { (0..n).map(|_| *r.pick(&["a", "0", "7", "-", "x", "Z"])).collect::<Vec<_>>().join(".") };
        let (a, b, c) = (ids(r, n), ids(r, n), ids(r, n / 2));
        f(&format!("1.2.3-{}", a));
        f(&format!("1.2.3+{}", b));
        f(&format!("1.2.3-{}+{}", c, ids(r, n / 2)));
        f(&format!("v1.2.3{}", a.replacen(|ch: char| ch.is_ascii_digit() || ch == '-', "q", 1)));
    }
    // zero-padded numeric identifiers of every length around the width of u64 (19/20 digits)
    for pad in [1usize, 2, 3, 8, 15, 16, 17, 18, 19, 20, 21, 22, 23, 30, 60] {
        for val in ["0", "7", "42", "18446744073709551615", "18446744073709551616", "9007199254740993"] {
            let id = format!("{}{}", "0".repeat(pad), val);
            f(&format!("1.2.3-{}", id));
            f(&format!("1.2.3+{}", id));
            f(&format!("1.2.3-alpha.{}", id));
            f(&format!("1.2.3-{}.beta+{}", id, id));
            f(&format!("v1.2.3-rc.{}.x", id));
        }
    }
    for n in ["900719925474098", "900719925474099", "900719925474100", "9007199254740991", "18446744073709551615", "18446744073709551616", "99999999999999999999", "10000000000000000000000000"] {
        f(&format!("{}.2.3", n));
        f(&format!("1.{}.3", n));
        f(&format!("1.2.{}", n));
        f(&format!("v1.2.{}", n));
        f(&format!(" 1.{}.3-a", n));
        f(&format!("1.2.3-{}", n));
        f(&format!("1.2.3-a.{}+{}", n, n));
        f(&format!("1.2.{}\n", n));
        f(&format!("\n1.2.{}", n));
    }
}

pub fn random_strings(r: &mut Rng, f: &mut dyn FnMut(&str)) {
    // random concatenations of tokens
    let toks: &[&str] = &["0", "1", "12", "007", ".", ".", ".", "-", "+", "a", "rc", "alpha", "v", "V", " ", "\t", "\n", "x", "*", "é", "Ł", "_", "..", "--", "900719925474099", "900719925474100"];
    let n = 1 + r.below(12);
    let mut s = String::new();
    for _ in 0..n {
        s.push_str(*r.pick(toks));
    }
    f(&s);
}
