//! Shared judge for C01/C03: crate's answer for (range text, version) against the documented
//! desugaring of the generating AST.

use crate::gen::probe_set;
use crate::interval::*;
use crate::mv::*;
use crate::observe::*;
use crate::rast::*;
use nodejs_semver::Range;

#[derive(Clone, Debug)]
pub struct Mismatch {
    pub dir: &'static str, // admits-extra | rejects-valid | unparsed | parsed-invalid | panic | version-range-disagree
    pub version: Option<MV>,
    pub detail: String,
}

pub struct Judged {
    pub mismatch: Option<Mismatch>,
    pub judged: u64,
    pub ambiguous: u64,
    pub admitted: u64,
    pub rejected: u64,
    pub parsed: bool,
    pub crate_display: Option<String>,
}

/// Judge one text against the desugared model. `des == None`: the text holds no valid comparator.
pub fn judge_text(text: &str, des: &Option<Desugared>, extra_basis: &[MV]) -> Judged {
    let main = guarded(|| Range::parse(text).ok());
    let mut out = judge_entry(text, des, extra_basis, main.clone(), "Range::parse");
    // the other textual entry points (FromStr, serde Deserialize) yield "a parsed range" too:
    // whenever one of them does not return the very same value, it is judged like the first
    let main_state = main.ok().map(|r| r.map(|r| (bounds(&r).ok(), r)));
    let others: [(&str, Result<Option<Range>, PanicInfo>); 2] = [
        ("str::parse::<Range>", guarded(|| text.parse::<Range>().ok())),
        ("serde Deserialize", guarded(|| serde_json::from_value::<Range>(serde_json::Value::String(text.to_string())).ok())),
    ];
    for (name, res) in others {
        let state = res.clone().ok().map(|r| r.map(|r| (bounds(&r).ok(), r)));
        let same = match (&main_state, &state) {
            (Some(Some((b1, r1))), Some(Some((b2, r2)))) => b1 == b2 && r1 == r2,
            (Some(None), Some(None)) => true,
            _ => false,
        };
        if same {
            continue;
        }
        let j = judge_entry(text, des, extra_basis, res, name);
        if out.mismatch.is_none() {
            if let Some(mut m) = j.mismatch {
                m.detail = format!("[entry point {}] {}", name, m.detail);
                out.mismatch = Some(m);
            }
        }
    }
    out
}

fn judge_entry(text: &str, des: &Option<Desugared>, extra_basis: &[MV], parsed: Result<Option<Range>, PanicInfo>, entry: &str) -> Judged {
    let mut out = Judged { mismatch: None, judged: 0, ambiguous: 0, admitted: 0, rejected: 0, parsed: false, crate_display: None };
    let parsed = match parsed {
        Ok(p) => p,
        Err(pi) => {
            out.mismatch = Some(Mismatch { dir: "panic", version: None, detail: format!("{} panicked: {} at {}", entry, pi.message, pi.site) });
            return out;
        }
    };
    let mut basis: Vec<MV> = extra_basis.to_vec();
    if let Some(d) = des {
        basis.extend(d.versions());
    }
    if let Some(r) = &parsed {
        out.parsed = true;
        out.crate_display = Some(r.to_string());
        if let Ok(b) = bounds(r) {
            basis.extend(b.versions());
        }
    }
    let probes = probe_set(&basis);
    for v in &probes {
        let verdict = match des {
            Some(d) => d.verdict(v),
            None => Verdict::Reject,
        };
        if verdict == Verdict::Ambiguous {
            out.ambiguous += 1;
            continue;
        }
        out.judged += 1;
        let want = verdict == Verdict::Admit;
        if want {
            out.admitted += 1;
        } else {
            out.rejected += 1;
        }
        match &parsed {
            Some(r) => {
                let cv = v.to_crate();
                let got = match guarded(|| (r.satisfies(&cv), cv.satisfies(r))) {
                    Ok(g) => g,
                    Err(pi) => {
                        out.mismatch = Some(Mismatch { dir: "panic", version: Some(v.clone()), detail: format!("satisfies panicked: {} at {}", pi.message, pi.site) });
                        return out;
                    }
                };
                if got.0 != got.1 {
                    out.mismatch = Some(Mismatch { dir: "version-range-disagree", version: Some(v.clone()), detail: format!("Range::satisfies={} Version::satisfies={}", got.0, got.1) });
                    return out;
                }
                if got.0 != want && out.mismatch.is_none() {
                    out.mismatch = Some(Mismatch {
                        dir: if des.is_none() {
                            "parsed-invalid"
                        } else if got.0 {
                            "admits-extra"
                        } else {
                            "rejects-valid"
                        },
                        version: Some(v.clone()),
                        detail: format!(
                            "range {:?} parsed to {:?}; version {}: crate satisfies={} but documented desugaring [{}] says {}",
                            text,
                            out.crate_display.clone().unwrap_or_default(),
                            v.text(),
                            got.0,
                            des.as_ref().map(|d| d.text()).unwrap_or_else(|| "no valid comparator".into()),
                            want
                        ),
                    });
                }
            }
            None => {
                if want && out.mismatch.is_none() {
                    out.mismatch = Some(Mismatch {
                        dir: "unparsed",
                        version: Some(v.clone()),
                        detail: format!("range {:?} failed to parse although documented desugaring [{}] admits {}", text, des.as_ref().map(|d| d.text()).unwrap_or_default(), v.text()),
                    });
                }
            }
        }
    }
    out
}

/// caret semantics depend on which leading components are zero
fn zero_pattern(p: &Partial) -> String {
    let (a, b, c, _) = p.normal();
    let f = |x: Option<u64>| match x {
        Some(0) => "Z",
        Some(_) => "N",
        None => "X",
    };
    match (a, b, c) {
        (None, _, _) => "X".to_string(),
        (_, None, _) => f(a).to_string(),
        (_, _, None) => format!("{}.{}", f(a), f(b)),
        _ => format!("{}.{}.{}", f(a), f(b), f(c)),
    }
}

/// signature cell of one comparator: operator + *normalised* partial shape
pub fn comparator_shape(op: Op, p: &Partial) -> String {
    let ns = p.normal_shape();
    if op == Op::Caret {
        format!("^{}{}", zero_pattern(p), if ns.ends_with("+pre") { "+pre" } else { "" })
    } else {
        format!("{}{}", op.name(), ns)
    }
}

/// interval denoted by a list of primitive comparators (None if it contains `*`, whose lower
/// end is ambiguous between the two readings, or `<0.0.0-0`)
fn prims_interval(prims: &[Prim]) -> Option<Iv> {
    let mut iv = Iv::all();
    for p in prims {
        let one = match p {
            Prim::Any => return None,
            Prim::Nothing => Iv { lo: End::Unb, hi: End::Exc(MV::new(0, 0, 0).with_pre(&["0"])) },
            Prim::Cmp(POp::Lt, v) => Iv { lo: End::Unb, hi: End::Exc(v.clone()) },
            Prim::Cmp(POp::Le, v) => Iv { lo: End::Unb, hi: End::Inc(v.clone()) },
            Prim::Cmp(POp::Gt, v) => Iv { lo: End::Exc(v.clone()), hi: End::Unb },
            Prim::Cmp(POp::Ge, v) => Iv { lo: End::Inc(v.clone()), hi: End::Unb },
            Prim::Cmp(POp::Eq, v) => Iv { lo: End::Inc(v.clone()), hi: End::Inc(v.clone()) },
        };
        iv = iv.intersect(&one);
    }
    Some(iv)
}

/// For attribution only: does the comparator, parsed alone, store bounds that differ from the
/// documented ones although `satisfies` alone agrees (the prerelease gate masks it)?
fn latent_bounds_differ(text: &str, prims: &[Prim], at: Option<&MV>) -> bool {
    let iv = match prims_interval(prims) {
        Some(iv) => iv,
        None => return false,
    };
    let r = match guarded(|| Range::parse(text)) {
        Ok(Ok(r)) => r,
        _ => return false,
    };
    let b = match bounds(&r) {
        Ok(b) => b,
        Err(_) => return false,
    };
    // the stored bounds must differ from the documented ones *at the version of the mismatch*:
    // a comparator of this shape merely occurring in the range explains nothing
    if let Some(v) = at {
        return b.contains(v) != iv.contains(v);
    }
    let mut basis = b.versions();
    basis.extend(iv.versions());
    probe_set(&basis).iter().any(|v| b.contains(v) != iv.contains(v))
}

/// Attribute a mismatch of a whole range to the smallest part that already disagrees alone,
/// and build the signature (DESIGN §2.6).
pub fn attribute(ast: &RangeAst, sp: &Spelling, whole: &Mismatch) -> String {
    if whole.dir == "panic" {
        return format!("panic/{}", whole.detail.rsplit(" at ").next().unwrap_or("unknown"));
    }
    let plain = Spelling::plain();
    // 1. single comparators / hyphens alone
    for a in &ast.alts {
        match a {
            Alt::Hyphen(lo, hi) => {
                let one = RangeAst { alts: vec![a.clone()] };
                let j = judge_text(&one.render(&plain), &desugar_range(&one), &[]);
                if let Some(m) = j.mismatch {
                    return format!("{}/hyphen:{} - {}", m.dir, lo.normal_shape(), hi.normal_shape());
                }
            }
            Alt::Set(toks) => {
                for t in toks {
                    if let Tok::Cmp(op, p) = t {
                        let one = RangeAst::single(*op, p.clone());
                        let j = judge_text(&one.render(&plain), &desugar_range(&one), &[]);
                        if let Some(m) = j.mismatch {
                            return format!("{}/{}", m.dir, comparator_shape(*op, p));
                        }
                    }
                }
            }
        }
    }
    // 1b. a comparator whose stored bounds differ from the documented ones, masked by the gate
    //     when it stands alone and visible only in a conjunction
    for a in &ast.alts {
        match a {
            Alt::Hyphen(lo, hi) => {
                let one = RangeAst { alts: vec![a.clone()] };
                if latent_bounds_differ(&one.render(&plain), &desugar_hyphen(lo, hi), whole.version.as_ref()) {
                    return format!("compose/latent-bounds/hyphen:{} - {}", lo.normal_shape(), hi.normal_shape());
                }
            }
            Alt::Set(toks) => {
                for t in toks {
                    if let Tok::Cmp(op, p) = t {
                        let one = RangeAst::single(*op, p.clone());
                        if latent_bounds_differ(&one.render(&plain), &desugar(*op, p), whole.version.as_ref()) {
                            return format!("compose/latent-bounds/{}", comparator_shape(*op, p));
                        }
                    }
                }
            }
        }
    }
    // 2. each alternative alone (conjunction structure)
    for a in &ast.alts {
        let one = RangeAst { alts: vec![a.clone()] };
        let des = desugar_range(&one);
        let j = judge_text(&one.render(&plain), &des, &[]);
        if let Some(m) = j.mismatch {
            let has_garbage = matches!(a, Alt::Set(t) if t.iter().any(|x| matches!(x, Tok::Garbage(_))));
            let n = match a {
                Alt::Set(t) => t.iter().filter(|x| matches!(x, Tok::Cmp(..))).count(),
                _ => 1,
            };
            let empty = j.admitted == 0;
            return format!(
                "compose/{}/conj{}{}{}",
                m.dir,
                n,
                if empty { "-empty" } else { "" },
                if has_garbage { "+garbage" } else { "" }
            );
        }
    }
    // 3. whole range in plain spelling
    let j = judge_text(&ast.render(&plain), &desugar_range(ast), &[]);
    if let Some(m) = j.mismatch {
        return format!("compose/{}/or{}", m.dir, ast.alts.len());
    }
    // 4. only the spelling matters
    format!("spelling/{}/{}", whole.dir, sp.describe())
}
