//! Shared judge for C01/C03: crate's answer for (range text, version) against the documented
//! desugaring of the generating AST.

use crate::gen::probe_set;
use crate::mv::*;
use crate::observe::*;
use crate::rast::*;
use nodejs_semver::Range;

#[derive(Clone, Debug)]
pub struct Mismatch {
    pub dir: &'static str, // admits-extra | rejects-valid | unparsed | parsed-invalid | panic | version-range-disagree
    pub version: Option<MV>,
    pub detail: String,
}

pub struct Judged {
    pub mismatch: Option<Mismatch>,
    pub judged: u64,
    pub ambiguous: u64,
    pub admitted: u64,
    pub rejected: u64,
    pub parsed: bool,
    pub crate_display: Option<String>,
}

/// Judge one text against the desugared model. `des == None`: the text holds no valid comparator.
pub fn judge_text(text: &str, des: &Option<Desugared>, extra_basis: &[MV]) -> Judged {
    let mut out = Judged { mismatch: None, judged: 0, ambiguous: 0, admitted: 0, rejected: 0, parsed: false, crate_display: None };
    let parsed = match guarded(|| Range::parse(text)) {
        Ok(p) => p,
        Err(pi) => {
            out.mismatch = Some(Mismatch { dir: "panic", version: None, detail: format!("Range::parse panicked: {} at {}", pi.message, pi.site) });
            return out;
        }
    };
    let mut basis: Vec<MV> = extra_basis.to_vec();
    if let Some(d) = des {
        basis.extend(d.versions());
    }
    if let Ok(r) = &parsed {
        out.parsed = true;
        out.crate_display = Some(r.to_string());
        if let Ok(b) = bounds(r) {
            basis.extend(b.versions());
        }
    }
    let probes = probe_set(&basis);
    for v in &probes {
        let verdict = match des {
            Some(d) => d.verdict(v),
            None => Verdict::Reject,
        };
        if verdict == Verdict::Ambiguous {
            out.ambiguous += 1;
            continue;
        }
        out.judged += 1;
        let want = verdict == Verdict::Admit;
        if want {
            out.admitted += 1;
        } else {
            out.rejected += 1;
        }
        match &parsed {
            Ok(r) => {
                let cv = v.to_crate();
                let got = match guarded(|| (r.satisfies(&cv), cv.satisfies(r))) {
                    Ok(g) => g,
                    Err(pi) => {
                        out.mismatch = Some(Mismatch { dir: "panic", version: Some(v.clone()), detail: format!("satisfies panicked: {} at {}", pi.message, pi.site) });
                        return out;
                    }
                };
                if got.0 != got.1 {
                    out.mismatch = Some(Mismatch { dir: "version-range-disagree", version: Some(v.clone()), detail: format!("Range::satisfies={} Version::satisfies={}", got.0, got.1) });
                    return out;
                }
                if got.0 != want && out.mismatch.is_none() {
                    out.mismatch = Some(Mismatch {
                        dir: if des.is_none() {
                            "parsed-invalid"
                        } else if got.0 {
                            "admits-extra"
                        } else {
                            "rejects-valid"
                        },
                        version: Some(v.clone()),
                        detail: format!(
                            "range {:?} parsed to {:?}; version {}: crate satisfies={} but documented desugaring [{}] says {}",
                            text,
                            out.crate_display.clone().unwrap_or_default(),
                            v.text(),
                            got.0,
                            des.as_ref().map(|d| d.text()).unwrap_or_else(|| "no valid comparator".into()),
                            want
                        ),
                    });
                }
            }
            Err(_) => {
                if want && out.mismatch.is_none() {
                    out.mismatch = Some(Mismatch {
                        dir: "unparsed",
                        version: Some(v.clone()),
                        detail: format!("range {:?} failed to parse although documented desugaring [{}] admits {}", text, des.as_ref().map(|d| d.text()).unwrap_or_default(), v.text()),
                    });
                }
            }
        }
    }
    out
}

fn zero_pattern(p: &Partial) -> String {
    p.comps
        .iter()
        .map(|c| match c {
            Xr::Num(0) => "Z",
            Xr::Num(_) => "N",
            Xr::Wild(_) => "X",
        })
        .collect::<Vec<_>>()
        .join(".")
}

pub fn comparator_shape(op: Op, p: &Partial) -> String {
    let shape = if op == Op::Caret { zero_pattern(p) } else { p.shape().replace("+pre", "") };
    format!("{}{}{}", op.name(), shape, if p.pre.is_empty() { "" } else { "+pre" })
}

/// Attribute a mismatch of a whole range to the smallest part that already disagrees alone,
/// and build the signature (DESIGN §2.6).
pub fn attribute(ast: &RangeAst, sp: &Spelling, whole: &Mismatch) -> String {
    if whole.dir == "panic" {
        return format!("panic/{}", whole.detail.rsplit(" at ").next().unwrap_or("unknown"));
    }
    let plain = Spelling::plain();
    // 1. single comparators / hyphens alone
    for a in &ast.alts {
        match a {
            Alt::Hyphen(lo, hi) => {
                let one = RangeAst { alts: vec![a.clone()] };
                let j = judge_text(&one.render(&plain), &desugar_range(&one), &[]);
                if let Some(m) = j.mismatch {
                    return format!("{}/hyphen:{} - {}", m.dir, lo.shape(), hi.shape());
                }
            }
            Alt::Set(toks) => {
                for t in toks {
                    if let Tok::Cmp(op, p) = t {
                        let one = RangeAst::single(*op, p.clone());
                        let j = judge_text(&one.render(&plain), &desugar_range(&one), &[]);
                        if let Some(m) = j.mismatch {
                            return format!("{}/{}", m.dir, comparator_shape(*op, p));
                        }
                    }
                }
            }
        }
    }
    // 2. each alternative alone (conjunction structure)
    for a in &ast.alts {
        let one = RangeAst { alts: vec![a.clone()] };
        let des = desugar_range(&one);
        let j = judge_text(&one.render(&plain), &des, &[]);
        if let Some(m) = j.mismatch {
            let has_garbage = matches!(a, Alt::Set(t) if t.iter().any(|x| matches!(x, Tok::Garbage(_))));
            let n = match a {
                Alt::Set(t) => t.iter().filter(|x| matches!(x, Tok::Cmp(..))).count(),
                _ => 1,
            };
            let empty = j.admitted == 0;
            return format!(
                "compose/{}/conj{}{}{}",
                m.dir,
                n,
                if empty { "-empty" } else { "" },
                if has_garbage { "+garbage" } else { "" }
            );
        }
    }
    // 3. whole range in plain spelling
    let j = judge_text(&ast.render(&plain), &desugar_range(ast), &[]);
    if let Some(m) = j.mismatch {
        return format!("compose/{}/or{}", m.dir, ast.alts.len());
    }
    // 4. only the spelling matters
    format!("spelling/{}/{}", whole.dir, sp.describe())
}
